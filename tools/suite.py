#!/usr/bin/env python3
"""Run the repository's pinned test-suite in a given tree and compare with
/root/.vp/BASELINE.json (stable_pass list).  usage: suite.py [repo_dir]"""
import json, os, subprocess, sys, tempfile, xml.etree.ElementTree as ET
repo = sys.argv[1] if len(sys.argv) > 1 else '/repo'
base = json.load(open('/root/.vp/BASELINE.json'))
with tempfile.NamedTemporaryFile(suffix='.xml', delete=False) as t:
    xml = t.name
env = dict(os.environ)
env.pop('PYMODBUS_VERIF', None)
p = subprocess.run(['/venv/bin/python', '-m', 'pytest', '-ra', '-q', '-p', 'no:cacheprovider', '--timeout=900',
                    '--continue-on-collection-errors', '--junitxml=' + xml], cwd=repo, env=env,
                   stdout=subprocess.PIPE, stderr=subprocess.STDOUT, text=True)
passed = set()
for tc in ET.parse(xml).getroot().iter('testcase'):
    if not any(c.tag in ('failure', 'error', 'skipped') for c in tc):
        passed.add('%s::%s' % (tc.get('classname'), tc.get('name')))
os.unlink(xml)
want = set(base['stable_pass'])
missing = sorted(want - passed)
print('passed=%d baseline_stable_pass=%d missing=%d' % (len(passed), len(want), len(missing)))
for m in missing[:30]:
    print('  MISSING', m)
if missing:
    print(p.stdout[-3000:])
sys.exit(1 if missing else 0)
