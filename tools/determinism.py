#!/usr/bin/env python3
"""Run every quick check from fresh processes under several VERIF_SEED values and require
identical coverage counters and verdicts (wall time, seed and samples excluded)."""
import json, os, subprocess, sys
man = json.load(open('/verif/MANIFEST.json'))
seeds = [int(x) for x in (sys.argv[1:] or ['0', '1', '7'])]
bad = 0
for c in man['checks']:
    pid = c['property_id']
    ref = None
    for sd in seeds:
        env = dict(os.environ, VERIF_SEED=str(sd))
        r = subprocess.run(c['quick_cmd'], shell=True, cwd='/verif', env=env, stdout=subprocess.PIPE, stderr=subprocess.STDOUT, text=True)
        ev = json.load(open(c['evidence_file']))
        cov = ev['coverage']
        key = (r.returncode, json.dumps({k: cov[k] for k in ('counters', 'distinct', 'known_finding_witnesses', 'unlisted_violations', 'exhaustive')}, sort_keys=True),
               sorted(l for l in r.stdout.splitlines() if l.startswith(('VIOLATION', 'KNOWN-FINDING'))).__repr__()[:2000])
        if ref is None:
            ref = key
        elif key != ref:
            bad += 1
            print('NON-DETERMINISTIC', pid, 'seed', sd)
            print(' ', ref[1][:300]); print(' ', key[1][:300])
    print(pid, 'exit', ref[0], 'identical under seeds', seeds)
sys.exit(1 if bad else 0)
