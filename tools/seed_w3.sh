#!/bin/bash
# evaluate wave-N seeds: seed_w3.sh <PROP> <dir-suffix> <letterA> <letterB> <checks...>
P=$1; SUF=$2; LA=$3; LB=$4; shift 4
for ab in A B; do
  as=$LA; [ $ab = B ] && as=$LB
  SEED_AS=$as /verif/tools/seed.py /tmp/seed/${P}${SUF} $ab $P "$@" | python3 -c "import json,sys; m=json.load(sys.stdin); print(m['property'],'$as','confirmed',m['confirmed'],m['demo_clean_exit'],m['demo_changed_exit'],{k:(v['exit'],v['violations'],v['wall_s']) for k,v in m['checks'].items()})"
done
