#!/bin/bash
# eval2.sh <rNNb> : evaluate A and B with the checks relevant to the area
declare -A REL
REL[r01]="C01 C02 C03 C04 C05 C06 C09 C12 C14 C17"
REL[r02]="C01 C02 C03 C05 C06 C08 C09 C12 C16 C20"
REL[r03]="C03 C06 C07 C08 C09 C10 C11 C12 C13 C15 C16 C17"
REL[r04]="C03 C06 C07 C08 C09 C10 C11 C12 C13 C14 C15 C16 C17"
REL[r05]="C03 C06 C07 C08 C09 C10 C11 C12 C13 C14 C17"
REL[r06]="C08 C13 C14 C15 C16"
REL[r07]="C08 C13 C14 C15"
REL[r08]="C05 C09 C10 C11 C12 C17"
REL[r09]="C05 C09 C10 C12 C17"
REL[r10]="C01 C04 C05 C09 C10 C12 C17 C18 C20"
REL[r11]="C01 C02 C03 C04 C06 C07 C11 C19"
REL[r12]="C16"
r=$1; base=${r%b}
for ab in A B; do
  /verif/tools/refac.py ${REFAC_DIR:-/tmp/refac}/$r $ab ${REL[$base]} > /tmp/refac/res-$r-$ab.json 2>&1
  python3 -c "
import json
try:
    m=json.load(open('/tmp/refac/res-$r-$ab.json')); print(m['name'], 'suite_ok', m.get('suite_ok'), 'equiv_same', m.get('equiv_same'), 'ALARMS', m.get('alarms'))
except Exception as e: print('$r-$ab', 'ERR', open('/tmp/refac/res-$r-$ab.json').read()[-300:])
"
done
