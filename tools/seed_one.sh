#!/bin/bash
# seed_one.sh <seed-name>: re-confirm one seeded change against the current /repo HEAD with the checks recorded for it
cd /verif
n=$1; p=${n%%-*}; d=seeded/$n
grep -q "\"superseded\": true" $d/meta.json && { echo "$n superseded"; exit 0; }
checks=$(python3 -c "
import json; m=json.load(open('$d/meta.json')); ks=[k for k,v in m.get('checks',{}).items() if v.get('exit')==1] or ['$p']
print(' '.join(sorted(ks, key=lambda k: (k!='$p', k))))")
tools/seed.py /verif/seeded/$n - $p $checks > /tmp/seedall-$n.json 2>&1
python3 -c "
import json,sys
try:
    m=json.load(open('/tmp/seedall-$n.json'))
    got=[k for k in '$checks'.split() if m['checks'][k]['exit']==1 and m['checks'][k]['violations']]
    bad=[k for k in '$checks'.split() if m['checks'][k]['exit'] not in (0,1)]
    acc=json.load(open('/verif/seeded/$n/meta.json')).get('accepted_miss')
    print('$n', 'confirmed' if m['confirmed'] else 'NOT-CONFIRMED', ('caught by '+','.join(got)) if got else ('missed (accepted: see meta.json)' if acc else 'MISSED'), ('HARNESS-ERROR in '+','.join(bad)) if bad else '')
except Exception as e:
    print('$n', 'ERROR', open('/tmp/seedall-$n.json').read()[-300:])
"
