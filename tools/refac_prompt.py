import sys
areas = {
 'r01': 'pymodbus/pdu.py, pymodbus/bit_read_message.py, pymodbus/bit_write_message.py, pymodbus/register_read_message.py, pymodbus/register_write_message.py',
 'r02': 'pymodbus/other_message.py, pymodbus/file_message.py, pymodbus/diag_message.py, pymodbus/mei_message.py, pymodbus/factory.py',
 'r03': 'pymodbus/framer/__init__.py, pymodbus/framer/socket_framer.py, pymodbus/framer/tls_framer.py',
 'r04': 'pymodbus/framer/rtu_framer.py',
 'r05': 'pymodbus/framer/ascii_framer.py, pymodbus/framer/binary_framer.py',
 'r06': 'pymodbus/transaction.py',
 'r07': 'pymodbus/client/sync.py, pymodbus/client/common.py',
 'r08': 'pymodbus/server/sync.py',
 'r09': 'pymodbus/server/async_io.py, pymodbus/server/asynchronous.py',
 'r10': 'pymodbus/datastore/store.py, pymodbus/datastore/context.py, pymodbus/device.py',
 'r11': 'pymodbus/payload.py, pymodbus/utilities.py',
 'r12': 'pymodbus/client/asynchronous/twisted/__init__.py',
}
k = sys.argv[1]
wave = sys.argv[2] if len(sys.argv) > 2 else ''
wt = '/tmp/wt-%s%s' % (k, wave)
out = '/tmp/refac/%s%s' % (k, wave)
print(f"""You are helping to test a verification effort for the Python library pymodbus (Modbus protocol stack, version 2.4.0 snapshot).
You have your own scratch git worktree of the repository at {wt} (python interpreter with all dependencies: /venv/bin/python; run it with `cd {wt} && PYTHONPATH={wt} /venv/bin/python ...` so that YOUR copy of pymodbus is imported). Work ONLY inside {wt} and {out}/ . Never touch /repo or /verif and do not read anything under /verif.

YOUR TASK: produce TWO different, independent, realistic BEHAVIOUR-PRESERVING changes (call them A and B) to these files: {areas[k]}

Each change must be the kind of thing a maintainer does without intending to change what the library does for its users: a refactoring, a clean-up, a micro-optimisation, a change of internal representation -- and it must really preserve the externally visible behaviour for EVERY input, schedule and history (same bytes on the wire, same results and exceptions from public methods, same datastore effects, same timing-relevant read sizes). Be careful: this is the whole point, the changes will be used to check that a set of semantic checkers does NOT raise false alarms. Make them substantial enough to matter to a checker that may peek at internals, for example:
  - rename or restructure PRIVATE attributes / helper methods (leading underscore, name-mangled), split or merge private helpers, move private state into a small helper object;
  - change an internal representation without changing behaviour (bytes <-> bytearray for an internal buffer, list <-> tuple or dict <-> list for an internal table, a lazily built but per-instance and correctly invalidated cache, storing a derived value instead of recomputing it);
  - reorder independent statements, replace a loop by an equivalent comprehension / struct call, hoist a constant, add a private attribute that does not influence behaviour (counters, timestamps of last activity, debug fields), add logging calls at debug level;
  - (second wave, prefer these) replace a plain private attribute by a property backed by a differently named slot; keep private state in a helper object that uses __slots__, a namedtuple, a collections.deque or a memoryview; create private attributes lazily on first use instead of in __init__ (or the other way round); turn class-level private defaults into instance attributes (or the other way round, when nothing mutates them); memoise a PURE helper with functools.lru_cache; use generators / itertools internally; change the order in which private attributes are created; replace isinstance chains by dispatch tables keyed by type;
  - (third wave, prefer these) change HOW objects get constructed or wired without changing what they do: protocol/handler factories (lambda <-> functools.partial <-> bound method <-> small closure), lookup tables of decoders built lazily or as another mapping type or via dict comprehension, class attributes computed by a private class-level helper, `super().__init__` instead of explicit base calls, private mixins; wrap existing debug log calls in `if _logger.isEnabledFor(logging.DEBUG)` or add new debug-level log calls with lazily formatted arguments (logging must never change behaviour, whatever the log level); give PRIVATE helper classes `__slots__`; replace private instance attributes of message/handler/framer/client objects by properties backed by other names; replace string formatting styles; replace `time`/`struct` call styles by equivalent ones (`struct.Struct(...).pack`, `int.to_bytes`);
  - add an optional keyword argument with a default that keeps the old behaviour, add a `__repr__`/`__slots__`-free helper, add type checks that can never fire for valid use.
Do NOT rename or change anything public (names without a leading underscore that applications use, documented attributes such as `registers`, `bits`, `transaction_id`, `unit_id`, `values`, `store`, `address`, `framer`, `socket`, `transaction`, `timeout`), do not change defaults, do not fix bugs (even obvious ones: bug-compatible behaviour is required), do not change which exception type escapes where.

Each change, applied alone, must still import and must pass the existing test-suite exactly as well as the unchanged tree does:
      cd {wt} && /venv/bin/python -m pytest -q -p no:cacheprovider --timeout=900 --continue-on-collection-errors
On the unchanged tree this gives "354 passed" plus a fixed set of failures/collection errors that are environmental. After your change the SAME 354 tests must still pass (run it; ~15 s). If a test looks at a private name you renamed, pick another refactoring -- tests must not be edited.
Additionally write a small equivalence demo for each change that exercises the touched code on a good number of inputs/histories and prints a digest (e.g. sha1 over all observed outputs); the digest must be IDENTICAL on the unchanged tree and on the changed tree (run both, record both digests in the notes).

Do NOT use `git stash`; save diffs to files and use `git apply` / `git checkout -- .` instead.

DELIVERABLES (create directory {out}/ ):
  {out}/A.diff and {out}/B.diff   -- `git diff` of each change alone relative to the worktree's HEAD
  {out}/equiv_A.py and {out}/equiv_B.py -- the equivalence demos (run as `PYTHONPATH=<tree> /venv/bin/python equiv_A.py`, print one digest line)
  {out}/notes.md -- for each change: what it does, why it cannot change externally visible behaviour, which private names / representations changed, suite result, the two digests.
Before finishing: `git -C {wt} checkout -- .` so the worktree is clean again. Report briefly what A and B are.""")
