#!/usr/bin/env python3
"""Print the prompt for a mutation sub-agent: property text + its own worktree only."""
import json, sys
pid = sys.argv[1]
wave = sys.argv[2] if len(sys.argv) > 2 else ''
p = [json.loads(l) for l in open('/verif/properties.jsonl') if json.loads(l)['id'] == pid][0]
wt = '/tmp/wt-%s%s' % (pid.lower(), wave)
out = '/tmp/seed/%s%s' % (pid, wave)
avoid = ''
if wave:
    import glob
    prev = [json.load(open(f)).get('needs', '') for f in sorted(glob.glob('/verif/seeded/%s-*/meta.json' % pid))]
    avoid = 'AVOID (already tried by others, do something with a DIFFERENT mechanism and site): ' + ' || '.join(p for p in prev if p) + '\n'
    if int(wave[1:]) >= 5:
        avoid += ('Look especially at anchor files, classes, options and code paths that the AVOID list does not mention yet '
                  '(rarely used constructor options, alternative entry points, less common message types or framings, error paths).\n')
print(f"""You are helping to test a verification effort for the Python library pymodbus (Modbus protocol stack, version 2.4.0 snapshot).
You have your own scratch git worktree of the repository at {wt} (python interpreter with all dependencies: /venv/bin/python; run it with `cd {wt} && PYTHONPATH={wt} /venv/bin/python ...` so that YOUR copy of pymodbus is imported, and check `pymodbus.__file__` once to be sure). Work ONLY inside {wt} and {out}/ . Never touch /repo or /verif and do not read anything under /verif.

Here is a semantic property that pymodbus is supposed to satisfy:

TITLE: {p['title']}
STATEMENT: {p['statement']}
QUANTIFIED OVER: {p['quantifier']['text']}
CODE ANCHORS (files): {', '.join(p['anchors']['files'])}

YOUR TASK: produce TWO different, independent, realistic source changes (call them A and B) to pymodbus (files under pymodbus/ only, not tests) such that each change, applied alone:
 1. BREAKS the property above (in a way you can demonstrate against the real code),
 2. still imports/compiles, and
 3. still passes the existing test-suite exactly as well as the unchanged tree does. The suite command is:
      cd {wt} && /venv/bin/python -m pytest -q -p no:cacheprovider --timeout=900 --continue-on-collection-errors
    On the unchanged tree this gives "354 passed" plus a fixed set of failures/collection errors that are environmental (asyncio.coroutine missing, sqlalchemy, ...). After your change the SAME 354 tests must still pass (run it to be sure; takes ~15 s).
Prefer changes that need something SPECIFIC to manifest -- a particular interleaving or arrival schedule, a fault at a particular point, a multi-step sequence of operations, an unusual input/boundary value, a non-initial state, or two cooperating sites that each look fine alone -- NOT changes that any ordinary use would expose at once. They should look like plausible developer mistakes or "optimisations" (off-by-one in a boundary, a reset moved or dropped, state hoisted to class/module scope, a check reordered, a cache keyed too coarsely, an early return, an error path that forgets to restore something ...), not like sabotage. A and B should break the property through different mechanisms/sites.

Do NOT use `git stash` (the stash is shared between worktrees); save diffs to files and use `git apply` / `git checkout -- .` instead.
{avoid}
Note: the unchanged tree may already violate this property in some corners (it is an old snapshot with known bugs). Your change must introduce a NEW failure: your demonstration must PASS on the unchanged tree and FAIL with your change.

DELIVERABLES (create directory {out}/ ):
  {out}/A.diff and {out}/B.diff      -- `git diff` output of each change alone relative to the worktree's HEAD (apply-able with `git apply`)
  {out}/demo_A.py and {out}/demo_B.py -- small standalone programs, run as `PYTHONPATH=<tree> /venv/bin/python demo_A.py`, that exit 0 and print PASS on the unchanged tree and exit 1 and print FAIL (with what went wrong) on the tree with the change. No network, no real sockets/serial ports needed ideally (use fakes); must run in < 30 s.
  {out}/notes.md -- for each change: what it does, why it breaks the property, what specific condition it needs to manifest, and the exact commands you ran (suite result with the change, demo result with and without).
Before finishing: `git -C {wt} checkout -- .` so the worktree is clean again (the diffs live in {out}/). Report briefly what A and B are.""")
