#!/usr/bin/env python3
"""Regenerate /verif/MANIFEST.json from the table below (kept next to the checks)."""
import json, os
HERE = os.path.dirname(os.path.dirname(os.path.abspath(__file__)))
props = [json.loads(l) for l in open(os.path.join(HERE, 'properties.jsonl'))]

TRUST = 'CPython, struct, binascii; the reference models in /verif/ref (anchored to the specification\'s worked examples by selftest). '

T = {  # id: (category, text, note, technique, design_ref)
 'C01': ('exploration',
  'Exhaustive enumeration of every message class, both directions, over stated finite alphabets (26-value boundary alphabet in full cross product per field, per-field sweep 0..65535 in thorough, every list length to the spec limit, every bit content for short lists, all 127x256 exception PDUs, MEI object lists with repeated ids, the scalar convenience forms of the write constructors) against an independent spec-derived reference codec; no encoded PDU may exceed 253 bytes.',
  TRUST + 'Field values outside the alphabets in *combination* are not covered (per-field exhaustive only).',
  'exhaustive bounded enumeration of inputs against a spec-derived reference codec', 'DESIGN.md 4 C01'),
 'C06': ('model_checking',
  'Explicit-state search over (bytes consumed, complete framer snapshot, deliveries): every transition is one real processIncomingPacket call, the graph is explored to closure, so every one of the 2^(n-1) chunkings (plus empty reads) of each listed stream of valid frames is covered exactly; oracle = deliveries of the same framer fed one frame per read. Streams of 2-3 maximum-size frames (longer than any single ADU) are covered with every chunking of <= 2 cuts (thorough: every pair of cut positions; 3 cuts from a boundary menu); a stream of 12 of the shortest frames with every chunking of <= 1 (thorough 2) cuts.',
  TRUST + 'Streams are finite and listed (all single frames, all ordered pairs, triples/quads over mixes); payload contents are the catalogue values; the framer is assumed to hold no state outside vars(framer) (unknown attribute types abort the check).',
  'explicit-state BFS of the real framer over all chunk schedules (state = snapshot, closure reached)', 'DESIGN.md 4 C06'),
}
EXTRA = os.path.join(HERE, 'tools', 'manifest_table.json')
if os.path.exists(EXTRA):
    T.update({k: tuple(v) for k, v in json.load(open(EXTRA)).items()})


def chk(pid):
    cat, text, note, tech, ref = T[pid]
    return dict(property_id=pid, quick_cmd='/venv/bin/python -B vcheck.py run %s --tier quick' % pid,
                thorough_cmd='/venv/bin/python -B vcheck.py run %s --tier thorough' % pid,
                evidence_file='/verif/evidence/%s.json' % pid,
                replay_cmd_template='/venv/bin/python -B vcheck.py replay {path}',
                engine='vcheck', level_claimed=dict(category=cat, text=text, design_ref=ref),
                level_note=note, technique=tech)


built = sorted(k for k in T if os.path.exists(os.path.join(HERE, 'checks', k.lower() + '.py')))
man = dict(version=1, setup_cmd='/venv/bin/python -B vcheck.py selftest',
           hooks=dict(guard='PYMODBUS_VERIF',
                      enable='not needed: every seam is public or patched from the harness; no source hooks exist',
                      baseline_off_cmd='cd /repo && /venv/bin/python -m pytest -ra -q -p no:cacheprovider --timeout=900 --continue-on-collection-errors',
                      source_commits=[], add_only=True),
           engines=[dict(name='vcheck', path='/verif/vcheck.py', serves_properties=built,
                         kind_free_text='hand-written explicit-state / deviation-bounded / thread-schedule explorers (mc/) driving the real pymodbus objects; spec-derived reference models in ref/')],
           checks=[chk(p) for p in built],
           notes='See DESIGN.md. Every thorough command also repeats the quick exploration with the library debug logging switched on (evidence: coverage.debug_logging_pass). Checks import pymodbus from /repo working tree (VERIF_REPO overrides) in a fresh interpreter per run; nothing is built.',
           not_applicable=[dict(property_id=p['id'], reason='check not built yet (work in progress, DESIGN.md section 9); no claim is made for this property')
                           for p in props if p['id'] not in built])
json.dump(man, open(os.path.join(HERE, 'MANIFEST.json'), 'w'), indent=1)
print('manifest: built', built)
