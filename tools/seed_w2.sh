#!/bin/bash
# evaluate wave-2 seeds of property $1 (dir /tmp/seed/$1w2, A->C, B->D) against checks $2...
P=$1; shift
for ab in A B; do
  as=C; [ $ab = B ] && as=D
  SEED_AS=$as /verif/tools/seed.py /tmp/seed/${P}w2 $ab $P "$@" | python3 -c "import json,sys; m=json.load(sys.stdin); print(m['property'],'$as','confirmed',m['confirmed'],m['suite'],m['demo_clean_exit'],m['demo_changed_exit'],{k:(v['exit'],v['violations'],v['wall_s']) for k,v in m['checks'].items()})"
done
