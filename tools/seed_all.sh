#!/bin/bash
# Re-confirm every seeded change against the current /repo HEAD and re-run the checks recorded for it
# (its property's own check and the sibling checks that caught it).  usage: seed_all.sh [parallel jobs, default 4]
cd /verif
ls seeded | xargs -P ${1:-4} -n1 tools/seed_one.sh
