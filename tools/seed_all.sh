#!/bin/bash
# Re-confirm every seeded change against the current /repo HEAD and re-run the property's own check on it.
cd /verif
for d in seeded/*/; do
  n=$(basename $d); p=${n%%-*}
  tools/seed.py /verif/seeded/$n - $p $p > /tmp/seedall-$n.json 2>&1
  python3 -c "
import json,sys
try:
    m=json.load(open('/tmp/seedall-$n.json'))
    c=m['checks']['$p']
    print('$n', 'confirmed' if m['confirmed'] else 'NOT-CONFIRMED', 'caught' if c['exit']==1 and c['violations'] else 'MISSED(exit %s)'%c['exit'], c['wall_s'])
except Exception as e:
    print('$n', 'ERROR', open('/tmp/seedall-$n.json').read()[-300:])
"
done
