#!/bin/bash
# Re-confirm every seeded change against the current /repo HEAD and re-run the checks recorded for it
# (its property's own check and the sibling checks it was evaluated with).
cd /verif
for d in seeded/*/; do
  n=$(basename $d); p=${n%%-*}
  grep -q "\"superseded\": true" $d/meta.json && { echo "$n superseded"; continue; }
  checks=$(python3 -c "
import json; m=json.load(open('$d/meta.json')); ks=[k for k,v in m.get('checks',{}).items() if v.get('exit')==1] or ['$p']
print(' '.join(sorted(ks, key=lambda k: (k!='$p', k))))")
  tools/seed.py /verif/seeded/$n - $p $checks > /tmp/seedall-$n.json 2>&1
  python3 -c "
import json,sys
try:
    m=json.load(open('/tmp/seedall-$n.json'))
    got=[k for k in '$checks'.split() if m['checks'][k]['exit']==1 and m['checks'][k]['violations']]
    bad=[k for k in '$checks'.split() if m['checks'][k]['exit'] not in (0,1)]
    print('$n', 'confirmed' if m['confirmed'] else 'NOT-CONFIRMED', ('caught by '+','.join(got)) if got else 'MISSED', ('HARNESS-ERROR in '+','.join(bad)) if bad else '')
except Exception as e:
    print('$n', 'ERROR', open('/tmp/seedall-$n.json').read()[-300:])
"
done
