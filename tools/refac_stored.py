#!/usr/bin/env python3
"""Re-run one stored behaviour-preserving change (refactors/<name>/change.diff) against the current /repo HEAD and the
current checks (those relevant to the files it touches; all 20 with ALL=1).  usage: refac_stored.py <name>
Rewrites refactors/<name>/result.json; prints one line."""
import json, os, subprocess, sys, time
name = sys.argv[1]
d = '/verif/refactors/' + name
REL = {'r01': "C01 C02 C03 C04 C05 C06 C09 C12 C14 C17", 'r02': "C01 C02 C03 C05 C06 C08 C09 C12 C16 C20",
       'r03': "C03 C06 C07 C08 C09 C10 C11 C12 C13 C15 C16 C17", 'r04': "C03 C06 C07 C08 C09 C10 C11 C12 C13 C14 C15 C16 C17",
       'r05': "C03 C06 C07 C08 C09 C10 C11 C12 C13 C14 C17", 'r06': "C08 C13 C14 C15 C16", 'r07': "C08 C13 C14 C15",
       'r08': "C05 C09 C10 C11 C12 C17", 'r09': "C05 C09 C10 C12 C17", 'r10': "C01 C04 C05 C09 C10 C12 C17 C18 C20",
       'r11': "C01 C02 C03 C04 C06 C07 C11 C19", 'r12': "C16"}
base = name.split('-')[0].rstrip('bc')
checks = ['C%02d' % i for i in range(1, 21)] if os.environ.get('ALL') else REL[base].split()
WT = '/tmp/wt-refac-%s' % name.lower()
sh = lambda c: subprocess.run(c, shell=True, stdout=subprocess.PIPE, stderr=subprocess.STDOUT, text=True)
sh('git -C /repo worktree remove --force %s' % WT)
r = sh('git -C /repo worktree add -q --detach %s HEAD' % WT); assert r.returncode == 0, r.stdout
out = dict(name=name, repo_head=sh('git -C /repo rev-parse --short HEAD').stdout.strip())
try:
    r = sh('git -C %s apply %s/change.diff' % (WT, d))
    out['applied'] = r.returncode == 0
    if not out['applied']:
        out['error'] = r.stdout[-300:]
        print(name, 'DOES-NOT-APPLY'); sys.exit(3)
    suite = sh('/verif/tools/suite.py %s' % WT)
    out['suite'] = suite.stdout.strip().splitlines()[0]
    d0 = sh('cd /tmp && PYTHONPATH=/repo /venv/bin/python -B %s/equiv.py' % d).stdout.strip().splitlines()[-1:]
    d1 = sh('cd /tmp && PYTHONPATH=%s /venv/bin/python -B %s/equiv.py' % (WT, d)).stdout.strip().splitlines()[-1:]
    out['equiv_same'] = d0 == d1
    out['checks'] = {}
    for c in checks:
        t = time.time()
        rr = sh('cd /verif && VERIF_REPO=%s ./vcheck.py run %s --tier quick' % (WT, c))
        lines = [l for l in rr.stdout.splitlines() if l.startswith(('VIOLATION', 'HARNESS-ERROR'))]
        out['checks'][c] = dict(exit=rr.returncode, wall_s=round(time.time() - t, 1))
        if rr.returncode:
            out['checks'][c]['first'] = (lines[0][:300] if lines else rr.stdout[-400:])
    out['alarms'] = sorted(c for c, v in out['checks'].items() if v['exit'] != 0)
    json.dump(out, open(d + '/result.json', 'w'), indent=1)
    print(name, out['suite'][:12], 'equiv_same', out['equiv_same'], 'ALARMS', out['alarms'])
finally:
    sh('git -C /repo worktree remove --force %s' % WT)
