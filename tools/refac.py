#!/usr/bin/env python3
"""Behaviour-preserving changes must stay silent.
usage: refac.py <dir> <A|B> [CHECK ...]    (default: all 20 quick checks)
Applies <dir>/<A|B>.diff to a scratch worktree of /repo HEAD, runs the pinned suite, the equivalence demo on both
trees (digests must agree), then the quick checks with VERIF_REPO pointing at the scratch tree; prints one JSON
object; every check must exit 0."""
import json, os, subprocess, sys, time
sd, ab = sys.argv[1], sys.argv[2]
checks = sys.argv[3:] or ['C%02d' % i for i in range(1, 21)]
name = os.path.basename(sd.rstrip('/')) + '-' + ab
WT = '/tmp/wt-refac-%s' % name.lower()
sh = lambda c, **k: subprocess.run(c, shell=True, stdout=subprocess.PIPE, stderr=subprocess.STDOUT, text=True, **k)
sh('git -C /repo worktree remove --force %s' % WT)
r = sh('git -C /repo worktree add -q --detach %s HEAD' % WT); assert r.returncode == 0, r.stdout
out = dict(name=name, repo_head=sh('git -C /repo rev-parse --short HEAD').stdout.strip())
try:
    r = sh('git -C %s apply %s/%s.diff' % (WT, sd, ab))
    out['applied'] = r.returncode == 0
    if r.returncode != 0:
        out['error'] = r.stdout[-300:]
        print(json.dumps(out)); sys.exit(3)
    suite = sh('/verif/tools/suite.py %s' % WT)
    out['suite'] = suite.stdout.strip().splitlines()[0]
    out['suite_ok'] = suite.returncode == 0
    eq = '%s/equiv_%s.py' % (sd, ab)
    if os.path.exists(eq):
        d0 = sh('cd /tmp && PYTHONPATH=/repo /venv/bin/python -B %s' % eq).stdout.strip().splitlines()[-1:]
        d1 = sh('cd /tmp && PYTHONPATH=%s /venv/bin/python -B %s' % (WT, eq)).stdout.strip().splitlines()[-1:]
        out['equiv_same'] = d0 == d1
        out['equiv'] = [d0, d1]
    out['checks'] = {}
    for c in checks:
        t = time.time()
        rr = sh('cd /verif && VERIF_REPO=%s ./vcheck.py run %s --tier quick' % (WT, c))
        lines = [l for l in rr.stdout.splitlines() if l.startswith(('VIOLATION', 'HARNESS-ERROR'))]
        out['checks'][c] = dict(exit=rr.returncode, first=(lines[0][:300] if lines else ''), wall_s=round(time.time() - t, 1))
        if rr.returncode == 2:
            out['checks'][c]['tail'] = rr.stdout[-700:]
    out['alarms'] = sorted(c for c, v in out['checks'].items() if v['exit'] != 0)
    print(json.dumps(out, indent=1))
finally:
    sh('git -C /repo worktree remove --force %s' % WT)
