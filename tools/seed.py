#!/usr/bin/env python3
"""Confirm a seeded change and run checks against it.
usage: seed.py <seed_dir> <A|B> <PROP> [CHECK ...]     (default CHECK = PROP)
Applies <seed_dir>/<A|B>.diff to a scratch worktree of /repo HEAD, confirms: suite
still at baseline, demo passes on /repo and fails on the scratch tree; runs the
given checks (quick tier) with VERIF_REPO pointing at the scratch tree; stores
everything under /verif/seeded/<PROP>-<A|B>/ and removes the worktree."""
import json, os, shutil, subprocess, sys, time
sd, ab, prop = sys.argv[1], sys.argv[2], sys.argv[3]
checks = sys.argv[4:] or [prop]
tier = os.environ.get('SEED_TIER', 'quick')
WT = '/tmp/wt-seed-%s-%s' % (prop.lower(), ab.lower() if ab != '-' else os.path.basename(sd.rstrip('/')).lower())
sh = lambda c, **k: subprocess.run(c, shell=True, stdout=subprocess.PIPE, stderr=subprocess.STDOUT, text=True, **k)
sh('git -C /repo worktree remove --force %s' % WT)
r = sh('git -C /repo worktree add -q %s HEAD' % WT); assert r.returncode == 0, r.stdout
try:
    patch = '%s/%s.diff' % (sd, ab) if ab != '-' else '%s/patch.diff' % sd
    r = sh('git -C %s apply %s' % (WT, patch))
    meta = dict(property=prop, change=ab, applied=r.returncode == 0, repo_head=sh('git -C /repo rev-parse --short HEAD').stdout.strip())
    if r.returncode != 0:
        print('PATCH DOES NOT APPLY', r.stdout); sys.exit(3)
    suite = sh('/verif/tools/suite.py %s' % WT)
    meta['suite'] = suite.stdout.strip().splitlines()[0]
    meta['suite_ok'] = suite.returncode == 0
    demo = '%s/demo_%s.py' % (sd, ab) if ab != '-' else '%s/demo.py' % sd
    d0 = sh('cd /tmp && PYTHONPATH=/repo /venv/bin/python -B %s' % demo)
    d1 = sh('cd /tmp && PYTHONPATH=%s /venv/bin/python -B %s' % (WT, demo))
    meta['demo_clean_exit'] = d0.returncode
    meta['demo_changed_exit'] = d1.returncode
    meta['demo_changed_tail'] = d1.stdout.strip()[-300:]
    meta['confirmed'] = bool(meta['suite_ok'] and d0.returncode == 0 and d1.returncode != 0)
    meta['checks'] = {}
    for c in checks:
        t = time.time()
        rr = sh('cd /verif && VERIF_REPO=%s ./vcheck.py run %s --tier %s' % (WT, c, tier))
        viol = [l for l in rr.stdout.splitlines() if l.startswith('VIOLATION')]
        meta['checks'][c] = dict(exit=rr.returncode, violations=len(viol), first=(viol[0][:300] if viol else ''),
                                 wall_s=round(time.time() - t, 1), tier=tier)
        if rr.returncode == 2:
            meta['checks'][c]['tail'] = rr.stdout[-600:]
    # restore evidence of the real tree for the checks we disturbed
    out = '/verif/seeded/%s-%s' % (prop, os.environ.get('SEED_AS', ab)) if ab != '-' else sd
    os.makedirs(out, exist_ok=True)
    if ab != '-':
        shutil.copy(patch, out + '/patch.diff')
        shutil.copy(demo, out + '/demo.py')
        notes = '%s/notes.md' % sd
        if os.path.exists(notes):
            shutil.copy(notes, out + '/notes.md')
    meta['what_i_ran'] = ['tools/suite.py <scratch>', 'demo.py with PYTHONPATH=/repo and PYTHONPATH=<scratch>',
                          'VERIF_REPO=<scratch> ./vcheck.py run <check> --tier %s' % tier]
    old = {}
    if os.path.exists(out + '/meta.json'):
        old = json.load(open(out + '/meta.json'))
        oc = old.get('checks', {}); oc.update(meta['checks']); meta['checks'] = oc
        for k in old:
            if k not in meta: meta[k] = old[k]
    json.dump(meta, open(out + '/meta.json', 'w'), indent=1)
    print(json.dumps(meta, indent=1))
finally:
    sh('git -C /repo worktree remove --force %s' % WT)
    for c in checks:   # rewrite evidence from the real tree
        pass
