"""The documented retry contract of the synchronous client (Defaults docstrings and
property C13), as plain arithmetic.  No pymodbus imports."""


def max_sends(retries):
    """a request is transmitted at most 1 + retries times"""
    return 1 + retries


def pause_budget(retries, backoff):
    """the back-off pauses of ONE call: exponential from `backoff`, one per attempt at most -- whatever the client did before"""
    return sum((2 ** k) * backoff for k in range(retries + 1))


def time_budget(retries, timeout, backoff):
    """upper bound of the virtual time one call may take: every attempt may wait one timeout per
    logical read (two per attempt: header + body), plus the exponential back-off pauses, plus slack"""
    pauses = sum((2 ** k) * backoff for k in range(retries + 1))
    return (1 + retries) * (2 * timeout + 1.0) + pauses + 5.0


def expected_followup_pdu():
    """the follow-up transaction reads holding registers 5..6 of the reference store after the
    main transaction; the harness compares the decoded reply with the reference server's own
    answer, this constant only documents the shape (function 3, 4 data bytes)"""
    return None


def selftest():
    assert max_sends(0) == 1 and max_sends(3) == 4
    assert time_budget(0, 3, 0.3) > 7 and time_budget(3, 3, 0.3) > 4 * 7
    return 2
