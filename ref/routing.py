"""Reference server: which unit store a request reaches, whether a reply is due
(clauses of properties C09/C10), on top of ref/datamodel.py.  No pymodbus imports.

    rs = RefServer(stores, single, broadcast_enable, ignore_missing_slaves)
    outcomes = rs.handle(unit, msg)

`stores` is {unit: datamodel.Store} (multi) or a single Store.  handle() applies the
request and returns the LIST OF ACCEPTABLE replies: each None (no reply) or a
response message; more than one entry only where the property allows either
behaviour (request to an absent unit: no reply or gateway exception 0x0A/0x0B).
"""
from . import datamodel

DATA_FCS = set(datamodel.TABLE_OF)


class RefServer(object):
    def __init__(self, stores, single, broadcast_enable=False, ignore_missing_slaves=False, listen_only_honoured=False):
        self.single = single
        self.stores = {0: stores} if single else dict(stores)
        self.bc = broadcast_enable
        self.ignore = ignore_missing_slaves
        self.listen_only = False
        self.honour = listen_only_honoured

    def store_for(self, unit):
        if self.single:
            return self.stores[0]
        return self.stores.get(unit)

    def hosted(self, unit):
        return self.single or unit in self.stores

    def execute(self, store, m):
        fc = m['fc']
        if fc in DATA_FCS:
            return datamodel.execute(store, m)
        if fc == 8:
            if m['sub'] == 0:
                return dict(kind='rsp', fc=8, sub=0, data=list(m['data']))
            if m['sub'] == 4:
                self.listen_only = True
                return None
            return 'shape-only'
        if fc in (7, 0x0B, 0x0C, 0x11, 0x14, 0x15, 0x18, 0x2B):
            return 'shape-only'
        return dict(kind='exc', fc=fc, code=datamodel.ILLEGAL_FUNCTION)

    def handle(self, unit, m):
        if self.bc and unit == 0:
            for u in sorted(self.stores):
                self.execute(self.stores[u], m)
            return [None]
        if not self.hosted(unit):
            if self.ignore:
                return [None]
            return [None, dict(kind='exc', fc=m['fc'], code=datamodel.GATEWAY_PATH),
                    dict(kind='exc', fc=m['fc'], code=datamodel.GATEWAY_TARGET)]
        return [self.execute(self.store_for(unit), m)]

    def dumps(self):
        return dict((u, s.dump()) for u, s in self.stores.items())


def selftest():
    mk = lambda: datamodel.Store({'c': {0: False}, 'd': {0: False}, 'h': {0: 1, 1: 2}, 'i': {0: 9}})   # noqa: E731
    w = dict(kind='req', fc=6, address=1, value=0x55)
    rs = RefServer({1: mk(), 2: mk()}, False, broadcast_enable=True)
    assert rs.handle(0, w) == [None] and rs.stores[1].t['h'][1] == 0x55 and rs.stores[2].t['h'][1] == 0x55
    rs = RefServer({1: mk(), 2: mk()}, False)
    out = rs.handle(0, w)
    assert None in out and len(out) == 3 and rs.stores[1].t['h'][1] == 2          # unit 0 is an ordinary (absent) address
    assert rs.handle(2, w) == [dict(kind='rsp', fc=6, address=1, value=0x55)] and rs.stores[1].t['h'][1] == 2
    rs = RefServer({1: mk()}, False, ignore_missing_slaves=True)
    assert rs.handle(9, w) == [None]
    rs = RefServer(mk(), True)
    assert rs.handle(0xF8, w)[0]['value'] == 0x55 and rs.stores[0].t['h'][1] == 0x55    # single mode: every id reaches the one context
    assert rs.handle(1, dict(kind='req', fc=0x41))[0] == dict(kind='exc', fc=0x41, code=1)
    return 6
