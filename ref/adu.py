"""Reference ADU (frame) builders and parsers for the five framings, written
from MODBUS Messaging on TCP/IP V1.0b, MODBUS over Serial Line V1.02 and the
binary framer's own docstring (jamod BIN).  No pymodbus imports."""
from .crc import crc16, crc_wire, lrc

FRAMINGS = ('tcp', 'rtu', 'ascii', 'binary', 'tls')


def build(framing, unit, pdu, tid=0, pid=0, binary_crc='escaped'):
    pdu = bytes(pdu)
    if framing == 'tcp':
        return (tid.to_bytes(2, 'big') + pid.to_bytes(2, 'big') +
                (len(pdu) + 1).to_bytes(2, 'big') + bytes([unit]) + pdu)
    if framing == 'rtu':
        body = bytes([unit]) + pdu
        return body + crc_wire(body)
    if framing == 'ascii':
        body = bytes([unit]) + pdu
        return b':' + (body + bytes([lrc(body)])).hex().upper().encode() + b'\r\n'
    if framing == 'tls':
        return pdu
    if framing == 'binary':
        # '{' unit function data CRC '}', delimiter bytes inside *data* doubled
        esc = bytearray()
        for b in pdu[1:]:
            if b in (0x7B, 0x7D):
                esc.append(b)
            esc.append(b)
        raw = bytes([unit]) + pdu
        body = bytes([unit, pdu[0]]) + bytes(esc)
        # CRC low byte first, as on RTU; whether it covers the frame before or
        # after doubling is not documented -- the framer computes it after.
        return b'{' + body + crc_wire(body if binary_crc == 'escaped' else raw) + b'}'
    raise ValueError(framing)


def parse_one(framing, frame):
    """Parse exactly one whole frame.  Returns dict(unit, pdu, tid, pid) if the
    frame is integrity-valid, else None."""
    frame = bytes(frame)
    if framing == 'tcp':
        if len(frame) < 8:
            return None
        tid = int.from_bytes(frame[0:2], 'big')
        pid = int.from_bytes(frame[2:4], 'big')
        ln = int.from_bytes(frame[4:6], 'big')
        if ln != len(frame) - 6 or ln < 2:
            return None
        return dict(unit=frame[6], pdu=frame[7:], tid=tid, pid=pid)
    if framing == 'rtu':
        if len(frame) < 4:
            return None
        if crc_wire(frame[:-2]) != frame[-2:]:
            return None
        return dict(unit=frame[0], pdu=frame[1:-2], tid=None, pid=None)
    if framing == 'ascii':
        if len(frame) < 9 or frame[:1] != b':' or frame[-2:] != b'\r\n':
            return None
        body = frame[1:-2]
        if len(body) % 2:
            return None
        try:
            txt = body.decode('ascii')
        except UnicodeDecodeError:
            return None
        if any(c not in '0123456789ABCDEFabcdef' for c in txt):
            return None
        raw = bytes.fromhex(txt)
        if len(raw) < 3 or lrc(raw[:-1]) != raw[-1]:
            return None
        return dict(unit=raw[0], pdu=raw[1:-1], tid=None, pid=None)
    if framing == 'tls':
        if not frame:
            return None
        return dict(unit=None, pdu=frame, tid=None, pid=None)
    if framing == 'binary':
        if len(frame) < 6 or frame[:1] != b'{' or frame[-1:] != b'}':
            return None
        body = frame[1:-3]
        # un-double delimiters in the data part
        data = bytearray()
        raw = body[2:]
        i = 0
        while i < len(raw):
            b = raw[i]
            if b in (0x7B, 0x7D) and i + 1 < len(raw) and raw[i + 1] == b:
                i += 1
            data.append(b)
            i += 1
        pdu = bytes([body[1]]) + bytes(data)
        if frame[-3:-1] not in (crc_wire(body), crc_wire(bytes([body[0]]) + pdu)):
            return None
        return dict(unit=body[0], pdu=pdu, tid=None, pid=None, pdu_raw=body[1:])
    raise ValueError(framing)


def valid_frames_in(framing, data, max_len=300):
    """Every contiguous substring of `data` that is an integrity-valid frame.
    Used as the *justification* oracle: a receiver may deliver a message only if
    some such substring carries it."""
    data = bytes(data)
    out = []
    n = len(data)
    if framing == 'tcp':
        for s in range(0, n - 7):
            ln = int.from_bytes(data[s + 4:s + 6], 'big')
            e = s + 6 + ln
            if ln >= 2 and e <= n:
                p = parse_one('tcp', data[s:e])
                if p:
                    out.append((s, e, p))
        return out
    if framing == 'ascii':
        for s in range(n):
            if data[s:s + 1] != b':':
                continue
            e = data.find(b'\r\n', s)
            while e != -1:
                p = parse_one('ascii', data[s:e + 2])
                if p:
                    out.append((s, e + 2, p))
                e = data.find(b'\r\n', e + 1)
        return out
    if framing == 'binary':
        for s in range(n):
            if data[s:s + 1] != b'{':
                continue
            for e in range(s + 5, min(n, s + max_len)):
                if data[e:e + 1] == b'}':
                    p = parse_one('binary', data[s:e + 1])
                    if p:
                        out.append((s, e + 1, p))
        return out
    if framing == 'rtu':
        for s in range(n):
            for e in range(s + 4, min(n, s + max_len) + 1):
                p = parse_one('rtu', data[s:e])
                if p:
                    out.append((s, e, p))
        return out
    raise ValueError(framing)


def selftest():
    k = 0
    # MBAP example of the TCP guide: tid 0x1501, read 1 register at 4 from unit 0xFF
    f = build('tcp', 0xFF, bytes.fromhex('0300040001'), tid=0x1501)
    assert f == bytes.fromhex('150100000006FF0300040001'); k += 1
    assert parse_one('tcp', f) == dict(unit=0xFF, pdu=bytes.fromhex('0300040001'), tid=0x1501, pid=0); k += 1
    f = build('rtu', 1, bytes.fromhex('030000000A'))
    assert f == bytes.fromhex('01030000000AC5CD'); k += 1
    assert parse_one('rtu', f)['pdu'] == bytes.fromhex('030000000A'); k += 1
    assert parse_one('rtu', f[:-1] + b'\x00') is None; k += 1
    f = build('ascii', 1, bytes.fromhex('0300000001'))
    assert f == b':010300000001FB\r\n'; k += 1
    assert parse_one('ascii', f)['unit'] == 1; k += 1
    assert parse_one('ascii', f.replace(b'FB', b'FC')) is None; k += 1
    f = build('binary', 1, bytes.fromhex('03007B0001'))
    assert f[:1] == b'{' and f[-1:] == b'}' and f[1:5] == bytes.fromhex('0103007B') and f[5] == 0x7B; k += 1
    assert parse_one('binary', f)['pdu'] == bytes.fromhex('03007B0001'); k += 1
    assert build('tls', 0, b'\x03\x00') == b'\x03\x00'; k += 1
    two = build('rtu', 1, b'\x07') + build('rtu', 2, b'\x0b')
    assert [(s, e) for s, e, p in valid_frames_in('rtu', two)] == [(0, 4), (4, 8)]; k += 1
    return k
