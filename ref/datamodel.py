"""Reference Modbus data model (V1.1b3 section 4.3 and the state diagrams of
6.1-6.17): four tables of cells addressed by protocol address, request
validation order 01 -> 03 -> 02 -> 04, response shapes.  Plain dicts, no
pymodbus imports.  Messages are the dicts of ref/pdu.py."""

TABLE_OF = {1: 'c', 5: 'c', 15: 'c', 2: 'd', 4: 'i', 3: 'h', 6: 'h', 16: 'h', 22: 'h', 23: 'h'}
LIMITS = {1: 2000, 2: 2000, 3: 125, 4: 125, 15: 1968, 16: 123}
ILLEGAL_FUNCTION, ILLEGAL_ADDRESS, ILLEGAL_VALUE, DEVICE_FAILURE = 1, 2, 3, 4
GATEWAY_PATH, GATEWAY_TARGET = 0x0A, 0x0B


class Store(object):
    """tables: {'c'|'d'|'h'|'i': {protocol_address: value}}; tables may be the
    same dict object (shared)."""

    def __init__(self, tables):
        self.t = tables

    def copy(self):
        memo = {}
        out = {}
        for k, d in self.t.items():
            if id(d) not in memo:
                memo[id(d)] = dict(d)
            out[k] = memo[id(d)]
        return Store(out)

    def has(self, tab, addr, count):
        d = self.t[tab]
        return all((addr + i) in d for i in range(count))

    def get(self, tab, addr, count):
        d = self.t[tab]
        return [d[addr + i] for i in range(count)]

    def put(self, tab, addr, values):
        d = self.t[tab]
        for i, v in enumerate(values):
            d[addr + i] = v

    def dump(self):
        return dict((k, tuple(sorted(d.items()))) for k, d in self.t.items())


def exc(m, code):
    return {'kind': 'exc', 'fc': m['fc'], 'code': code}


def execute(store, m, supported=None):
    """Apply request m; returns the response message.  Mutates store only when
    the response is a normal response."""
    fc = m['fc']
    if supported is not None and fc not in supported:
        return exc(m, ILLEGAL_FUNCTION)
    if fc not in TABLE_OF:
        return exc(m, ILLEGAL_FUNCTION)
    tab = TABLE_OF[fc]
    if fc in (1, 2, 3, 4):
        if not 1 <= m['count'] <= LIMITS[fc]:
            return exc(m, ILLEGAL_VALUE)
        if not store.has(tab, m['address'], m['count']):
            return exc(m, ILLEGAL_ADDRESS)
        vals = store.get(tab, m['address'], m['count'])
        if fc in (1, 2):
            return {'kind': 'rsp', 'fc': fc, 'bits': [bool(v) for v in vals]}
        return {'kind': 'rsp', 'fc': fc, 'registers': list(vals)}
    if fc == 5:
        if m['value'] not in (0x0000, 0xFF00):
            return exc(m, ILLEGAL_VALUE)
        if not store.has(tab, m['address'], 1):
            return exc(m, ILLEGAL_ADDRESS)
        store.put(tab, m['address'], [m['value'] == 0xFF00])
        return {'kind': 'rsp', 'fc': fc, 'address': m['address'], 'value': m['value']}
    if fc == 6:
        if not store.has(tab, m['address'], 1):
            return exc(m, ILLEGAL_ADDRESS)
        store.put(tab, m['address'], [m['value']])
        return {'kind': 'rsp', 'fc': fc, 'address': m['address'], 'value': m['value']}
    if fc == 15:
        n = m['count']
        if not 1 <= n <= LIMITS[fc] or m['byte_count'] != (n + 7) // 8:
            return exc(m, ILLEGAL_VALUE)
        if not store.has(tab, m['address'], n):
            return exc(m, ILLEGAL_ADDRESS)
        store.put(tab, m['address'], [bool(b) for b in m['bits'][:n]])
        return {'kind': 'rsp', 'fc': fc, 'address': m['address'], 'count': n}
    if fc == 16:
        n = m['count']
        if not 1 <= n <= LIMITS[fc] or m['byte_count'] != 2 * n:
            return exc(m, ILLEGAL_VALUE)
        if not store.has(tab, m['address'], n):
            return exc(m, ILLEGAL_ADDRESS)
        store.put(tab, m['address'], list(m['registers'][:n]))
        return {'kind': 'rsp', 'fc': fc, 'address': m['address'], 'count': n}
    if fc == 22:
        if not store.has(tab, m['address'], 1):
            return exc(m, ILLEGAL_ADDRESS)
        cur = store.get(tab, m['address'], 1)[0]
        new = (cur & m['and_mask']) | (m['or_mask'] & ~m['and_mask'] & 0xFFFF)
        store.put(tab, m['address'], [new])
        return {'kind': 'rsp', 'fc': fc, 'address': m['address'], 'and_mask': m['and_mask'], 'or_mask': m['or_mask']}
    if fc == 23:
        rn, wn = m['read_count'], m['write_count']
        if not 1 <= rn <= 125 or not 1 <= wn <= 121 or m['write_byte_count'] != 2 * wn:
            return exc(m, ILLEGAL_VALUE)
        if not store.has(tab, m['read_address'], rn) or not store.has(tab, m['write_address'], wn):
            return exc(m, ILLEGAL_ADDRESS)
        store.put(tab, m['write_address'], list(m['write_registers'][:wn]))     # write first
        return {'kind': 'rsp', 'fc': fc, 'registers': store.get(tab, m['read_address'], rn)}
    raise AssertionError(fc)


def selftest():
    s = Store({'c': {}, 'd': {}, 'h': {4: 0x12}, 'i': {}})
    r = execute(s, dict(kind='req', fc=22, address=4, and_mask=0xF2, or_mask=0x25))
    assert s.t['h'][4] == 0x17 and r['and_mask'] == 0xF2          # spec example of 6.16
    s = Store({'c': {}, 'd': {}, 'h': dict((a, a) for a in range(20)), 'i': {}})
    r = execute(s, dict(kind='req', fc=23, read_address=3, read_count=6, write_address=5, write_count=2,
                        write_byte_count=4, write_registers=[0xAA, 0xBB]))
    assert r['registers'] == [3, 4, 0xAA, 0xBB, 7, 8]              # write before read
    assert execute(s, dict(kind='req', fc=3, address=19, count=2)) == dict(kind='exc', fc=3, code=2)
    assert execute(s, dict(kind='req', fc=3, address=99, count=0)) == dict(kind='exc', fc=3, code=3)   # 03 before 02
    assert execute(s, dict(kind='req', fc=3, address=0, count=126))['code'] == 3
    sh = {}
    s2 = Store({'c': sh, 'd': sh, 'h': {}, 'i': {}})
    sh.update({0: False, 1: False})
    execute(s2, dict(kind='req', fc=5, address=1, value=0xFF00))
    assert execute(s2, dict(kind='req', fc=2, address=0, count=2))['bits'] == [False, True]
    assert execute(s2, dict(kind='req', fc=5, address=1, value=1))['code'] == 3
    c = s2.copy()
    assert c.t['c'] is c.t['d'] and c.t['c'] is not sh
    return 9
