"""Reference CRC-16/Modbus and LRC, written from the serial-line spec
(bitwise, not table driven; no pymodbus imports)."""


def crc16(data):
    """CRC-16/MODBUS: poly 0xA001 (reflected 0x8005), init 0xFFFF, no xorout.
    Returns the 16-bit register value; on the wire the LOW byte goes first."""
    crc = 0xFFFF
    for b in bytes(data):
        crc ^= b
        for _ in range(8):
            if crc & 1:
                crc = (crc >> 1) ^ 0xA001
            else:
                crc >>= 1
    return crc & 0xFFFF


def crc_wire(data):
    """The two CRC bytes as transmitted (low byte first)."""
    c = crc16(data)
    return bytes([c & 0xFF, c >> 8])


def lrc(data):
    """LRC: two's complement of the 8-bit sum of the message bytes."""
    return (-sum(bytes(data))) & 0xFF


def selftest():
    assert crc16(b'123456789') == 0x4B37
    assert crc_wire(bytes.fromhex('01030000000A')) == bytes.fromhex('C5CD')
    assert crc_wire(bytes.fromhex('0207')) == bytes.fromhex('4112')
    assert crc16(b'') == 0xFFFF
    # serial-line guide LRC example style: sum + lrc == 0 mod 256
    for s in (b'', b'\x01\x03\x00\x00\x00\x0a', bytes(range(256))):
        assert (sum(s) + lrc(s)) & 0xFF == 0
    assert lrc(bytes.fromhex('010300000001')) == 0xFB
    return 7
