"""Reference for Read Device Identification (V1.1b3 section 6.21): which objects
a request must return.  No pymodbus imports."""


def category(read_code):
    if read_code == 1:
        return list(range(0, 3))
    if read_code == 2:
        return list(range(0, 7))
    if read_code == 3:
        return list(range(0, 7)) + list(range(0x80, 0x100))
    raise ValueError(read_code)


def expected(identity, read_code, start):
    """identity: {id: bytes}.  Objects a client must end up with when it asks for
    (read_code, start) and follows the more-follows chain."""
    if read_code == 4:
        return [(start, bytes(identity.get(start, b'')))]
    return [(i, bytes(identity[i])) for i in category(read_code)
            if i >= start and identity.get(i)]


def completeness_required(identity, read_code, start):
    """The property demands completeness only for start ids that are a populated
    object of the category, or 0."""
    if read_code == 4:
        return bool(identity.get(start))
    return start == 0 or (start in category(read_code) and bool(identity.get(start)))


MAX_PDU = 253
MAX_OBJECT_THAT_FITS = 244      # 1 fc + 6 header + 2 + 244 = 253


def selftest():
    ident = {0: b'V', 1: b'P', 2: b'', 3: b'url', 0x80: b'x'}
    assert expected(ident, 1, 0) == [(0, b'V'), (1, b'P')]
    assert expected(ident, 2, 1) == [(1, b'P'), (3, b'url')]
    assert expected(ident, 3, 0) == [(0, b'V'), (1, b'P'), (3, b'url'), (0x80, b'x')]
    assert expected(ident, 4, 3) == [(3, b'url')]
    assert completeness_required(ident, 2, 0) and not completeness_required(ident, 2, 2)
    assert not completeness_required(ident, 1, 3)
    return 6
