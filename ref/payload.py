"""Reference register image of typed values for the four byte/word orders
(from the property text: big/big is network order; little word order reverses
the 16-bit words of a multi-register value; little byte order swaps the two
bytes inside each word).  No pymodbus imports."""
import struct

FMT = {'u8': 'B', 'i8': 'b', 'u16': 'H', 'i16': 'h', 'u32': 'I', 'i32': 'i', 'u64': 'Q', 'i64': 'q',
       'f16': 'e', 'f32': 'f', 'f64': 'd'}


def item_bytes(typ, value, byteorder, wordorder):
    """byteorder/wordorder: 'big' | 'little'"""
    if typ == 'str':
        return bytes(value)
    if typ == 'bits':
        out = bytearray((len(value) + 7) // 8)
        for i, b in enumerate(value):
            if b:
                out[i >> 3] |= 1 << (i & 7)
        return bytes(out)
    net = struct.pack('!' + FMT[typ], value)
    if len(net) == 1:
        return net
    words = [net[i:i + 2] for i in range(0, len(net), 2)]
    if wordorder == 'little':
        words.reverse()
    if byteorder == 'little':
        words = [w[::-1] for w in words]
    return b''.join(words)


def image(seq, byteorder, wordorder):
    return b''.join(item_bytes(t, v, byteorder, wordorder) for t, v in seq)


def registers(data):
    data = bytes(data)
    if len(data) % 2:
        data += b'\x00'
    return [int.from_bytes(data[i:i + 2], 'big') for i in range(0, len(data), 2)]


def selftest():
    # 0x12345678 in the four conventional layouts
    v = [('u32', 0x12345678)]
    assert image(v, 'big', 'big') == bytes.fromhex('12345678')
    assert image(v, 'big', 'little') == bytes.fromhex('56781234')
    assert image(v, 'little', 'big') == bytes.fromhex('34127856')
    assert image(v, 'little', 'little') == bytes.fromhex('78563412')
    assert image([('u16', 0x1234)], 'little', 'big') == bytes.fromhex('3412')
    assert image([('u8', 7), ('str', b'ab')], 'little', 'little') == b'\x07ab'
    assert registers(b'\x01\x02\x03') == [0x0102, 0x0300]
    assert image([('bits', [True, False, False, False, False, False, False, False, True])], 'big', 'big') == b'\x01\x01'
    assert image([('f32', 1.0)], 'big', 'big') == bytes.fromhex('3F800000')
    return 9
