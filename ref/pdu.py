"""Reference PDU codec written from MODBUS Application Protocol V1.1b3 section 6.
No pymodbus imports.  A message is a plain dict:

    {'kind': 'req'|'rsp'|'exc', 'fc': int, <fields...>}

encode(msg) -> bytes (function code included); decode(side, pdu) -> msg, where
side is 'req' (what a server receives) or 'rsp' (what a client receives).
All multi-byte fields are big-endian; bit lists are packed LSB first and zero
padded to a byte boundary; an exception response is (fc | 0x80, code).
"""

W = lambda v: int(v).to_bytes(2, 'big')      # noqa: E731
B = lambda v: bytes([int(v)])                # noqa: E731


def pack_bits(bits):
    out = bytearray((len(bits) + 7) // 8)
    for i, b in enumerate(bits):
        if b:
            out[i >> 3] |= 1 << (i & 7)
    return bytes(out)


def unpack_bits(data):
    return [bool((byte >> i) & 1) for byte in bytes(data) for i in range(8)]


def words(data):
    data = bytes(data)
    return [int.from_bytes(data[i:i + 2], 'big') for i in range(0, len(data) - 1, 2)]


SIMPLE_REQ = {1: ('address', 'count'), 2: ('address', 'count'),
              3: ('address', 'count'), 4: ('address', 'count'),
              5: ('address', 'value'), 6: ('address', 'value'),
              0x16: ('address', 'and_mask', 'or_mask'), 0x18: ('address',)}
SIMPLE_RSP = {5: ('address', 'value'), 6: ('address', 'value'),
              0x0F: ('address', 'count'), 0x10: ('address', 'count'),
              0x16: ('address', 'and_mask', 'or_mask'), 0x0B: ('status', 'count')}
NO_BODY_REQ = (7, 0x0B, 0x0C, 0x11)
SUPPORTED = (1, 2, 3, 4, 5, 6, 7, 8, 0x0B, 0x0C, 0x0F, 0x10, 0x11, 0x14, 0x15,
             0x16, 0x17, 0x18, 0x2B)


class Malformed(Exception):
    pass


def encode(m):
    k, fc = m['kind'], m['fc']
    if k == 'exc':
        return B(fc | 0x80) + B(m['code'])
    h = B(fc)
    if k == 'req':
        if fc in SIMPLE_REQ:
            return h + b''.join(W(m[f]) for f in SIMPLE_REQ[fc])
        if fc in NO_BODY_REQ:
            return h
        if fc == 8:
            return h + W(m['sub']) + b''.join(W(w) for w in m['data'])
        if fc == 0x0F:
            bits = m['bits']
            return (h + W(m['address']) + W(m.get('count', len(bits))) +
                    B(m.get('byte_count', (len(bits) + 7) // 8)) + pack_bits(bits))
        if fc == 0x10:
            regs = m['registers']
            return (h + W(m['address']) + W(m.get('count', len(regs))) +
                    B(m.get('byte_count', 2 * len(regs))) + b''.join(W(r) for r in regs))
        if fc == 0x14:
            g = m['groups']
            return h + B(7 * len(g)) + b''.join(B(6) + W(f) + W(r) + W(n) for f, r, n in g)
        if fc == 0x15:
            body = b''.join(B(6) + W(f) + W(r) + W(len(d) // 2) + bytes(d) for f, r, d in m['groups'])
            return h + B(len(body)) + body
        if fc == 0x17:
            regs = m['write_registers']
            return (h + W(m['read_address']) + W(m['read_count']) + W(m['write_address']) +
                    W(m.get('write_count', len(regs))) + B(m.get('write_byte_count', 2 * len(regs))) +
                    b''.join(W(r) for r in regs))
        if fc == 0x2B:
            return h + B(0x0E) + B(m['read_code']) + B(m['object_id'])
    if k == 'rsp':
        if fc in SIMPLE_RSP:
            return h + b''.join(W(m[f]) for f in SIMPLE_RSP[fc])
        if fc in (1, 2):
            p = pack_bits(m['bits'])
            return h + B(len(p)) + p
        if fc in (3, 4, 0x17):
            return h + B(2 * len(m['registers'])) + b''.join(W(r) for r in m['registers'])
        if fc == 7:
            return h + B(m['status'])
        if fc == 8:
            return h + W(m['sub']) + b''.join(W(w) for w in m['data'])
        if fc == 0x0C:
            ev = bytes(m['events'])
            return h + B(6 + len(ev)) + W(m['status']) + W(m['event_count']) + W(m['message_count']) + ev
        if fc == 0x11:
            ident = bytes(m['identifier'])
            return h + B(len(ident) + 1) + ident + B(0xFF if m['run'] else 0x00)
        if fc == 0x14:
            body = b''.join(B(1 + len(d)) + B(6) + bytes(d) for d in m['groups'])
            return h + B(len(body)) + body
        if fc == 0x15:
            body = b''.join(B(6) + W(f) + W(r) + W(len(d) // 2) + bytes(d) for f, r, d in m['groups'])
            return h + B(len(body)) + body
        if fc == 0x18:
            v = m['values']
            return h + W(2 + 2 * len(v)) + W(len(v)) + b''.join(W(x) for x in v)
        if fc == 0x2B:
            objs = b''.join(B(i) + B(len(d)) + bytes(d) for i, d in m['objects'])
            return (h + B(0x0E) + B(m['read_code']) + B(m['conformity']) + B(m['more']) +
                    B(m['next_id']) + B(len(m['objects'])) + objs)
    raise ValueError('cannot encode %r' % (m,))


def _need(cond):
    if not cond:
        raise Malformed()


def decode(side, pdu):
    """Decode a spec-conformant PDU; raises Malformed when the length
    contradicts the fields (the caller decides what a non-conformant PDU
    should lead to)."""
    pdu = bytes(pdu)
    _need(len(pdu) >= 1)
    fc, d = pdu[0], pdu[1:]
    if side == 'rsp' and fc & 0x80:
        _need(len(d) == 1)
        return {'kind': 'exc', 'fc': fc & 0x7F, 'code': d[0]}
    m = {'kind': side, 'fc': fc}
    if side == 'req':
        if fc in SIMPLE_REQ:
            names = SIMPLE_REQ[fc]
            _need(len(d) == 2 * len(names))
            m.update(zip(names, words(d)))
            return m
        if fc in NO_BODY_REQ:
            _need(len(d) == 0)
            return m
        if fc == 8:
            _need(len(d) >= 2 and len(d) % 2 == 0)
            w = words(d)
            m.update(sub=w[0], data=w[1:])
            return m
        if fc == 0x0F:
            _need(len(d) >= 5 and len(d) == 5 + d[4])
            cnt = int.from_bytes(d[2:4], 'big')
            m.update(address=int.from_bytes(d[0:2], 'big'), count=cnt, byte_count=d[4],
                     bits=unpack_bits(d[5:])[:cnt])
            return m
        if fc == 0x10:
            _need(len(d) >= 5 and len(d) == 5 + d[4])
            m.update(address=int.from_bytes(d[0:2], 'big'), count=int.from_bytes(d[2:4], 'big'),
                     byte_count=d[4], registers=words(d[5:]))
            return m
        if fc == 0x14:
            _need(len(d) >= 1 and len(d) == 1 + d[0] and d[0] % 7 == 0)
            g = []
            for i in range(1, len(d), 7):
                _need(d[i] == 6)
                g.append(tuple(words(d[i + 1:i + 7])))
            m['groups'] = g
            return m
        if fc == 0x15:
            m['groups'] = _dec_write_groups(d)
            return m
        if fc == 0x17:
            _need(len(d) >= 9 and len(d) == 9 + d[8])
            w = words(d[:8])
            m.update(read_address=w[0], read_count=w[1], write_address=w[2], write_count=w[3],
                     write_byte_count=d[8], write_registers=words(d[9:]))
            return m
        if fc == 0x2B:
            _need(len(d) == 3 and d[0] == 0x0E)
            m.update(read_code=d[1], object_id=d[2])
            return m
        raise Malformed('unsupported')
    # responses
    if fc in SIMPLE_RSP:
        names = SIMPLE_RSP[fc]
        _need(len(d) == 2 * len(names))
        m.update(zip(names, words(d)))
        return m
    if fc in (1, 2):
        _need(len(d) >= 1 and len(d) == 1 + d[0])
        m['bits'] = unpack_bits(d[1:])
        return m
    if fc in (3, 4, 0x17):
        _need(len(d) >= 1 and len(d) == 1 + d[0] and d[0] % 2 == 0)
        m['registers'] = words(d[1:])
        return m
    if fc == 7:
        _need(len(d) == 1)
        m['status'] = d[0]
        return m
    if fc == 8:
        _need(len(d) >= 2 and len(d) % 2 == 0)
        w = words(d)
        m.update(sub=w[0], data=w[1:])
        return m
    if fc == 0x0C:
        _need(len(d) >= 7 and len(d) == 1 + d[0])
        m.update(status=int.from_bytes(d[1:3], 'big'), event_count=int.from_bytes(d[3:5], 'big'),
                 message_count=int.from_bytes(d[5:7], 'big'), events=list(d[7:]))
        return m
    if fc == 0x11:
        _need(len(d) >= 2 and len(d) == 1 + d[0])
        # server id is device specific; run indicator is the byte after it.  With
        # no additional data the run indicator is the last byte.
        m.update(identifier=d[1:-1], run=(d[-1] == 0xFF))
        return m
    if fc == 0x14:
        _need(len(d) >= 1 and len(d) == 1 + d[0])
        g, i = [], 1
        while i < len(d):
            ln = d[i]
            _need(ln >= 1 and i + 1 + ln <= len(d) and d[i + 1] == 6)
            g.append(d[i + 2:i + 1 + ln])
            i += 1 + ln
        m['groups'] = g
        return m
    if fc == 0x15:
        m['groups'] = _dec_write_groups(d)
        return m
    if fc == 0x18:
        _need(len(d) >= 4)
        bc, n = int.from_bytes(d[0:2], 'big'), int.from_bytes(d[2:4], 'big')
        _need(bc == 2 + 2 * n and len(d) == 2 + bc)
        m['values'] = words(d[4:])
        return m
    if fc == 0x2B:
        _need(len(d) >= 6 and d[0] == 0x0E)
        m.update(read_code=d[1], conformity=d[2], more=d[3], next_id=d[4])
        objs, i = [], 6
        for _ in range(d[5]):
            _need(i + 2 <= len(d))
            oid, ln = d[i], d[i + 1]
            _need(i + 2 + ln <= len(d))
            objs.append((oid, d[i + 2:i + 2 + ln]))
            i += 2 + ln
        _need(i == len(d))
        m['objects'] = objs
        return m
    raise Malformed('unsupported')


def _dec_write_groups(d):
    _need(len(d) >= 1 and len(d) == 1 + d[0])
    g, i = [], 1
    while i < len(d):
        _need(i + 7 <= len(d) and d[i] == 6)
        f, r, n = words(d[i + 1:i + 7])
        _need(i + 7 + 2 * n <= len(d))
        g.append((f, r, d[i + 7:i + 7 + 2 * n]))
        i += 7 + 2 * n
    return g


def response_size(req):
    """PDU size (function code included) of the normal response to a
    conformant request, per the spec's response layouts."""
    fc = req['fc']
    if fc in (1, 2):
        return 2 + (req['count'] + 7) // 8
    if fc in (3, 4):
        return 2 + 2 * req['count']
    if fc in (5, 6, 0x0F, 0x10):
        return 5
    if fc == 0x16:
        return 7
    if fc == 0x17:
        return 2 + 2 * req['read_count']
    if fc == 8:
        return 3 + 2 * len(req['data'])
    raise ValueError(fc)


VECTORS = [  # (side, hex pdu, message)  -- worked examples of V1.1b3 section 6
    ('req', '0100130013', dict(kind='req', fc=1, address=0x13, count=0x13)),
    ('rsp', '0103CD6B05', dict(kind='rsp', fc=1, bits=unpack_bits(bytes.fromhex('CD6B05')))),
    ('req', '0200C40016', dict(kind='req', fc=2, address=0xC4, count=0x16)),
    ('rsp', '0203ACDB35', dict(kind='rsp', fc=2, bits=unpack_bits(bytes.fromhex('ACDB35')))),
    ('req', '03006B0003', dict(kind='req', fc=3, address=0x6B, count=3)),
    ('rsp', '0306022B00000064', dict(kind='rsp', fc=3, registers=[0x022B, 0, 0x64])),
    ('req', '0400080001', dict(kind='req', fc=4, address=8, count=1)),
    ('rsp', '0402000A', dict(kind='rsp', fc=4, registers=[10])),
    ('req', '0500ACFF00', dict(kind='req', fc=5, address=0xAC, value=0xFF00)),
    ('rsp', '0500ACFF00', dict(kind='rsp', fc=5, address=0xAC, value=0xFF00)),
    ('req', '0600010003', dict(kind='req', fc=6, address=1, value=3)),
    ('rsp', '0600010003', dict(kind='rsp', fc=6, address=1, value=3)),
    ('req', '07', dict(kind='req', fc=7)),
    ('rsp', '076D', dict(kind='rsp', fc=7, status=0x6D)),
    ('req', '080000A537', dict(kind='req', fc=8, sub=0, data=[0xA537])),
    ('rsp', '080000A537', dict(kind='rsp', fc=8, sub=0, data=[0xA537])),
    ('req', '0B', dict(kind='req', fc=0x0B)),
    ('rsp', '0BFFFF0108', dict(kind='rsp', fc=0x0B, status=0xFFFF, count=0x0108)),
    ('req', '0C', dict(kind='req', fc=0x0C)),
    ('rsp', '0C08000001080121' + '2000', dict(kind='rsp', fc=0x0C, status=0, event_count=0x0108,
                                              message_count=0x0121, events=[0x20, 0x00])),
    ('req', '0F0013000A02CD01', dict(kind='req', fc=0x0F, address=0x13, count=10, byte_count=2,
                                    bits=unpack_bits(bytes.fromhex('CD01'))[:10])),
    ('rsp', '0F0013000A', dict(kind='rsp', fc=0x0F, address=0x13, count=10)),
    ('req', '100001000204000A0102', dict(kind='req', fc=0x10, address=1, count=2, byte_count=4,
                                        registers=[0x000A, 0x0102])),
    ('rsp', '1000010002', dict(kind='rsp', fc=0x10, address=1, count=2)),
    ('req', '140E0600040001000206000300090002',
     dict(kind='req', fc=0x14, groups=[(4, 1, 2), (3, 9, 2)])),
    ('rsp', '140C05060DFE0020050633CD0040',
     dict(kind='rsp', fc=0x14, groups=[bytes.fromhex('0DFE0020'), bytes.fromhex('33CD0040')])),
    ('req', '150D0600040007000306AF04BE100D',
     dict(kind='req', fc=0x15, groups=[(4, 7, bytes.fromhex('06AF04BE100D'))])),
    ('rsp', '150D0600040007000306AF04BE100D',
     dict(kind='rsp', fc=0x15, groups=[(4, 7, bytes.fromhex('06AF04BE100D'))])),
    ('req', '16000400F20025', dict(kind='req', fc=0x16, address=4, and_mask=0xF2, or_mask=0x25)),
    ('rsp', '16000400F20025', dict(kind='rsp', fc=0x16, address=4, and_mask=0xF2, or_mask=0x25)),
    ('req', '1700030006000E00030600FF00FF00FF',
     dict(kind='req', fc=0x17, read_address=3, read_count=6, write_address=14, write_count=3,
          write_byte_count=6, write_registers=[0xFF, 0xFF, 0xFF])),
    ('rsp', '170C00FE0ACD00010003000D00FF',
     dict(kind='rsp', fc=0x17, registers=[0xFE, 0x0ACD, 1, 3, 0x0D, 0xFF])),
    ('req', '1804DE', dict(kind='req', fc=0x18, address=0x04DE)),
    ('rsp', '180006000201B81284', dict(kind='rsp', fc=0x18, values=[0x01B8, 0x1284])),
    ('req', '2B0E0100', dict(kind='req', fc=0x2B, read_code=1, object_id=0)),
    ('rsp', '2B0E0101000003' + '0016' + b'Company identification'.hex() +
     '010D' + b'Product code XX'[:13].hex() + '0205' + b'V2.11'.hex(),
     dict(kind='rsp', fc=0x2B, read_code=1, conformity=1, more=0, next_id=0,
          objects=[(0, b'Company identification'), (1, b'Product code XX'[:13]), (2, b'V2.11')])),
    ('rsp', '8102', dict(kind='exc', fc=1, code=2)),
]


def selftest():
    k = 0
    for side, hx, msg in VECTORS:
        raw = bytes.fromhex(hx)
        got = decode(side, raw)
        assert got == msg, (hx, got, msg)
        assert encode(msg) == raw, (hx, encode(msg).hex())
        k += 2
    assert pack_bits([True, False, True, True, False, False, True, True, True, True]) == bytes.fromhex('CD03')
    assert response_size(dict(fc=1, count=19)) == 5 and response_size(dict(fc=3, count=3)) == 8
    return k + 2
