"""C17 -- all server front-ends are behaviourally interchangeable; connections are isolated.

(a) Equivalence (differential E1): every request history up to the depth bound over
    the data-access / identification tokens is delivered to EVERY front-end that
    accepts the framer; the bytes written back and the final four-table dumps must
    be identical across front-ends.
(b) Isolation, atomic deliveries: 2 (quick) / 3 (thorough) connections, each with a
    script of chunks containing a frame split across chunks; EVERY interleaving of
    the chunk deliveries is run; each connection's replies and the final store must
    equal the reference server run on SOME serial order of the requests that respects
    each connection's own order (linearisability by brute force).
(c) Isolation, threaded front-end (E3): two handler threads of the synchronous TCP
    server under the controlled scheduler, scheduling points at recv, send and at every
    datastore operation of an instrumented context; all schedules up to the preemption
    bound; same linearisability oracle.
"""
import itertools

from mc.acc import Acc
from mc import par, sched
from ref import pdu, routing
from harness import servers, scenario, reset

ID = 'C17'
LEVEL = 'model_checking'
TOK_A = ['R', 'W', 'C', 'E2', 'E3', 'E1', 'D', 'I', 'UA', 'I0']
TOK_EXTRA = ['WMAX', 'RP']          # singles only ('RP': TCP framing only)
TIDS = [1, 0xFFFF, 0]
FRONTS_FOR = {}
for _f, (_k, _frs) in servers.FRONTS.items():
    for _fr in _frs:
        FRONTS_FOR.setdefault(_fr, []).append(_f)


# ------------------------------------------------------------------ (a) equivalence
def run_history(front, framing, cfg, seq, delivery='whole'):
    ctx, ref, real = scenario.build(cfg)
    reset.set_identity([(0, 'Vendor'), (1, 'PC'), (2, 'V2.11')])
    srv = servers.Server(front, framing, ctx, ignore_missing_slaves=cfg.ignore, broadcast_enable=cfg.broadcast)
    conn = srv.open()
    outs = []
    if delivery == 'burst-bytes':
        # one request arriving a byte at a time, all of it before the front-end gets to handle the first byte
        unit, m = scenario.token(seq[0], 0, cfg)
        f = scenario.frame(framing, unit, TIDS[0], m)
        chunks = [f[i:i + 1] for i in range(len(f))] if servers.FRONTS[front][0] == 'stream' else [f]
        outs = [tuple(conn.burst(chunks))]
        seq = ()
    if delivery == 'burst':
        # every request of the history arrives back to back, before the front-end gets to handle the first
        frames = []
        for i, tok in enumerate(seq):
            unit, m = scenario.token(tok, i, cfg)
            frames.append(scenario.frame(framing, unit, TIDS[i % 3], m))
        outs = [tuple(conn.burst(frames))] + [()] * (len(seq) - 1)
        seq = ()
    for i, tok in enumerate(seq):
        unit, m = scenario.token(tok, i, cfg)
        f = scenario.frame(framing, unit, TIDS[i % 3], m)
        script = [f]
        if delivery == 'debris-first' and servers.FRONTS[front][0] != 'stream':
            script = [f[:max(1, len(f) // 2)], f]          # a truncated datagram, then the whole request from the same peer
        if delivery == 'split-idle' and servers.FRONTS[front][0] == 'stream':
            # the request arrives in two reads after the line has been idle (the blocking front-ends see a read
            # time-out first); a datagram front-end always gets the whole request
            cut = len(f) // 2 + (i % 2)
            script = [f[:cut], f[cut:]]
            if front in ('sync-tcp', 'sync-serial'):
                import socket
                script = [socket.timeout('timed out')] + script
        outs.append(tuple(conn.run_script(script)))
    d = scenario.dumps(real)
    esc = [type(e).__name__ for _, e in srv.escaped]
    srv.shutdown()
    return tuple(outs), d, tuple(esc)


def compare(acc, framing, cfg, seq, delivery, fronts, whole_base):
    single, units, ign = cfg.single, cfg.units, cfg.ignore
    res = [(f, run_history(f, framing, cfg, seq, delivery)) for f in fronts]
    acc.inc('transitions', len(seq) * len(fronts))
    acc.inc('evaluations')
    base_f, base = res[0]
    first = base
    if whole_base is not None:
        res = [('whole-delivery', whole_base)] + res          # and the same bytes as when each request came in one read
        base_f, base = res[0]
    for f, r in res[1:]:
        what = None
        if r[0] != base[0]:
            what = 'bytes-differ'
        elif r[1] != base[1]:
            what = 'store-differs'
        elif r[2] != base[2]:
            what = 'escape-differs'
        if what:
            i = next((j for j in range(len(seq)) if r[0][j] != base[0][j]), len(seq) - 1)
            acc.violation('C17/%s~%s/%s/%s/%s/%s' % (base_f, f, framing, what, cfg.mode, seq[i]) + ('' if delivery == 'whole' else '/' + delivery),
                          dict(part='equiv', framing=framing, fronts=[base_f, f], cfg=[single, list(units), cfg.broadcast, ign], seq=list(seq),
                               **({} if delivery == 'whole' else dict(delivery=delivery))),
                          '%s vs %s: %r / %r' % (base_f, f, [x.hex() for x in base[0][i]], [x.hex() for x in r[0][i]]), framing)
    if any(len(o) for o in base[0]):
        acc.inc('histories_with_replies')
    return first


def shard_equiv(args):
    framing, depth, part, parts = args
    acc = Acc()
    fronts = FRONTS_FOR[framing]
    k = 0
    for single, units in ((True, (1,)), (False, (1, 2)), (False, (1, 255))):
        for ign in (False, True):
            cfg = scenario.Cfg(single, units, False, ign)
            # (TLS frames carry no unit id: every request addresses unit 0 -- filtered by the framer under the (1, 2) map,
            # passed on to a context that does not host it under (1, 255))
            for n in range(1, (depth if units != (1, 255) else min(depth, 2)) + 1):
                for seq in itertools.product(TOK_A, repeat=n):
                    if framing == 'tls' and 'UA' in seq:
                        continue
                    k += 1
                    if k % parts != part:
                        continue
                    for delivery in (('whole', 'split-idle') if framing != 'tls' and n <= 2 else ('whole',)):
                        r0 = compare(acc, framing, cfg, seq, delivery, fronts, whole_base if delivery != 'whole' else None)
                        if delivery == 'whole':
                            whole_base = r0
                    if n == 2:
                        compare(acc, framing, cfg, seq, 'burst', fronts, None)
                    if n == 1 and framing != 'tls':
                        compare(acc, framing, cfg, seq, 'burst-bytes', fronts, whole_base)
                    dg = [f for f in fronts if servers.FRONTS[f][0] != 'stream']
                    if n <= 2 and len(dg) > 1:
                        compare(acc, framing, cfg, seq, 'debris-first', dg, whole_base)
            for tok in TOK_EXTRA:
                if framing == 'tls' or (tok == 'RP' and framing != 'tcp'):
                    continue
                k += 1
                if k % parts == part:
                    compare(acc, framing, cfg, (tok,), 'whole', fronts, None)
            # a request whose handling raises: every connection-oriented front-end ends the conversation there, every
            # datagram front-end goes on with the next datagram (compared within each family)
            if framing != 'tls':
                for n in (1, 2, 3):
                    for seq in itertools.product(('S', 'R', 'W'), repeat=n):
                        if 'S' not in seq:
                            continue
                        k += 1
                        if k % parts != part:
                            continue
                        for fam in ([f for f in fronts if f.endswith('-tcp')], [f for f in fronts if f.endswith('-udp')]):
                            if len(fam) > 1:
                                compare(acc, framing, cfg, seq, 'whole', fam, None)
    # the broadcast service, on the front-ends that offer it (threaded and asyncio): unit-0 writes among ordinary requests,
    # one request per read and all of them back to back
    bc_fronts = [f for f in fronts if not f.startswith('tw-')]
    if framing != 'tls' and len(bc_fronts) > 1:
        # (one context for every unit id; units 1 and 2; a map that hosts unit 0 itself)
        for cfg in (scenario.Cfg(False, (1, 2), True, False), scenario.Cfg(True, (1,), True, False), scenario.Cfg(False, (0, 1), True, False)):
            for n in (1, 2, 3):
                for seq in itertools.product(('U0', 'R', 'W'), repeat=n):
                    if 'U0' not in seq or (n == 3 and cfg.units != (1, 2)):
                        continue
                    k += 1
                    if k % parts != part:
                        continue
                    for fam in ([f for f in bc_fronts if servers.FRONTS[f][0] == 'stream'], [f for f in bc_fronts if servers.FRONTS[f][0] != 'stream']):
                        if len(fam) > 1:
                            compare(acc, framing, cfg, seq, 'whole', fam, None)
                            if n >= 2:
                                compare(acc, framing, cfg, seq, 'burst', fam, None)
    acc.inc('states', k // parts)
    acc.add('nontrivial', ('equiv', framing))
    return acc


# ------------------------------------------------------------------ (b) isolation, atomic deliveries
def conn_scripts(framing, nconn, dgram):
    """per connection: (requests [(unit, tid, msg)], chunks)"""
    base = [
        [dict(kind='req', fc=6, address=2, value=0x00A1), dict(kind='req', fc=3, address=2, count=2)],
        [dict(kind='req', fc=22, address=2, and_mask=0x00F0, or_mask=0x0B00), dict(kind='req', fc=6, address=3, value=0x00B2)],
        [dict(kind='req', fc=16, address=2, count=2, byte_count=4, registers=[0xC1, 0xC2]), dict(kind='req', fc=3, address=3, count=1)],
    ][:nconn]
    out = []
    for ci, ms in enumerate(base):
        reqs = [(1, 0x10 * (ci + 1) + j, m) for j, m in enumerate(ms)]
        frames = [scenario.frame(framing, u, t, m) for u, t, m in reqs]
        if dgram:
            chunks = frames
        else:
            whole = b''.join(frames)
            c1 = len(frames[0]) // 2              # inside the first frame
            c2 = len(frames[0]) + len(frames[1]) // 2   # inside the second frame
            chunks = [whole[:c1], whole[c1:c2], whole[c2:]]
        out.append((reqs, chunks))
    return out


def interleavings(lens):
    """all merges of sequences 0..len-1 per connection, as lists of connection indices"""
    def rec(rem):
        if not any(rem):
            yield []
            return
        for i, r in enumerate(rem):
            if r:
                rem2 = list(rem)
                rem2[i] -= 1
                for tail in rec(rem2):
                    yield [i] + tail
    return rec(list(lens))


def serial_outcomes(scripts):
    """for every serial order of all requests respecting per-connection order: (replies per conn, final dump)"""
    outs = []
    for order in interleavings([len(r) for r, _ in scripts]):
        ref = routing.RefServer(scenario.LAY.ref(scenario.unit_state(0)), True)
        pos = [0] * len(scripts)
        replies = [[] for _ in scripts]
        for ci in order:
            unit, tid, m = scripts[ci][0][pos[ci]]
            pos[ci] += 1
            r = ref.handle(unit, m if isinstance(m, dict) else scenario.as_msg(m))[0]
            replies[ci].append((tid, pdu.encode(r)))
        outs.append((tuple(tuple(r) for r in replies), scenario.ref_dumps(ref)[0]))
    return outs


def shard_isolation(args):
    front, framing, nconn = args
    acc = Acc()
    dgram = servers.FRONTS[front][0] == 'dgram'
    if front == 'sync-serial':
        return acc              # one line, one peer
    scripts = conn_scripts(framing, nconn, dgram)
    allowed = serial_outcomes(scripts)
    cfg = scenario.Cfg(True, (1,), False, False)
    n = 0
    for order in interleavings([len(c) for _, c in scripts]):
        ctx, ref, real = scenario.build(cfg)
        srv = servers.Server(front, framing, ctx)
        conns = [srv.open(('10.0.0.%d' % (i + 1), 40000 + i)) for i in range(len(scripts))]
        pos = [0] * len(scripts)
        got = [[] for _ in scripts]
        for ci in order:
            ch = scripts[ci][1][pos[ci]]
            pos[ci] += 1
            for w in conns[ci].feed(ch):
                p = scenario.parse_out(framing, [w])[0]
                got[ci].append((p.get('tid') if framing == 'tcp' else None, p.get('pdu', b'garbage')))
        final = scenario.dumps(real)[0]
        esc = list(srv.escaped)
        srv.shutdown()
        n += 1
        acc.inc('transitions', len(order))
        acc.inc('evaluations')
        obs = (tuple(tuple((t if framing == 'tcp' else None, x) for t, x in g) for g in got), final)
        ok = any(obs[1] == fin and all(tuple((t if framing == 'tcp' else None, x) for t, x in rep[ci]) == obs[0][ci]
                                       for ci in range(len(scripts))) for rep, fin in allowed)
        acc.add('observed_outcomes', (front, framing, hash(obs)))
        wit = dict(part='isolation', front=front, framing=framing, nconn=nconn, order=order)
        if esc:
            acc.violation('C17/%s/%s/escape:%s/interleaved-chunks' % (front, framing, type(esc[0][1]).__name__), wit, repr(esc[0][1])[:100], front)
        if not ok:
            # is it the framing (a connection got no/garbled reply) or only the data?
            counts_ok = all(len(g) == len(scripts[ci][0]) for ci, g in enumerate(got))
            what = 'not-serialisable' if counts_ok else 'cross-connection-framing'
            acc.violation('C17/%s/%s/%s/interleaved-chunks' % (front, framing, what), wit,
                          'replies %r and final store match no serial order of the requests'
                          % ([[x.hex() for _, x in g] for g in got],), front)
    if dgram:
        # several peers' datagrams arrive before the server runs: every reply goes back to the peer that asked
        peers = [('10.0.0.%d' % (i + 1), 41000 + i) for i in range(3)]
        reqs = [dict(kind='req', fc=3, address=1 + i, count=1) for i in range(3)]
        for order in itertools.permutations(range(3)):
            ctx, ref, real = scenario.build(cfg)
            srv = servers.Server(front, framing, ctx)
            out = srv.dgram_burst([(peers[i], scenario.frame(framing, 1, 0x50 + i, reqs[i])) for i in order])
            srv.shutdown()
            n += 1
            acc.inc('transitions', 3)
            acc.inc('evaluations')
            want = sorted((peers[i], scenario.frame(framing, 1, 0x50 + i, ref.handle(1, reqs[i])[0])) for i in range(3))
            if sorted((tuple(a) if a else a, w) for a, w in out) != want:
                acc.violation('C17/%s/%s/reply-to-wrong-peer/burst' % (front, framing),
                              dict(part='burst', front=front, framing=framing, order=list(order)),
                              'burst of three datagrams: replies %r' % ([(a, w.hex()) for a, w in out],), front)
    acc.inc('states', n)
    acc.add('nontrivial', ('isolation', front, framing))
    if not acc.samples:
        acc.sample(dict(front=front, framing=framing, connections=[[c.hex() for c in ch] for _, ch in scripts], interleavings=n))
    return acc


# ------------------------------------------------------------------ (c) threaded front-end under the scheduler
class SchedCtx(object):
    """slave context whose every operation is a scheduling point"""

    def __init__(self, inner, s):
        self.inner, self.s = inner, s
        self.zero_mode = inner.zero_mode

    def validate(self, fx, address, count=1):
        self.s.point('validate')
        return self.inner.validate(fx, address, count)

    def getValues(self, fx, address, count=1):
        self.s.point('getValues')
        return self.inner.getValues(fx, address, count)

    def setValues(self, fx, address, values):
        self.s.point('setValues')
        return self.inner.setValues(fx, address, values)


_CUR_SCHED = [None]
_SCHED_CLASSES = []


def _sched_request_classes():
    """the standard request classes with a scheduling point inside decode(): a handler thread can be pre-empted while the
    (shared) decoder is half-way through building its request"""
    if not _SCHED_CLASSES:
        from pymodbus.factory import ServerDecoder
        from harness import framers as _fr
        for cls in _fr.standard_classes(ServerDecoder):
            def decode(self, data, _cls=cls):
                if _CUR_SCHED[0] is not None:
                    _CUR_SCHED[0].point('pdu-decode')
                return _cls.decode(self, data)
            _SCHED_CLASSES.append(type(cls.__name__, (cls,), dict(decode=decode, __doc__=cls.__doc__)))
    return _SCHED_CLASSES


class SchedDecoder(object):
    """the server's decoder with a scheduling point where a handler thread can be pre-empted between checking a
    frame and labelling the decoded request with the frame's ids, and one inside every request's decode()"""

    def __init__(self, inner, s):
        self.inner, self.s = inner, s
        _CUR_SCHED[0] = s
        for cls in _sched_request_classes():
            inner.register(cls)

    def decode(self, data):
        self.s.point('decode')
        r = self.inner.decode(data)
        self.s.point('decoded')          # ... and between handing the request back and its execution
        return r

    def __getattr__(self, name):
        return getattr(self.inner, name)


class SchedSock(object):
    def __init__(self, s, chunks):
        self.s, self.chunks, self.writes = s, list(chunks), []

    def recv(self, n=1024):
        self.s.point('recv')
        return self.chunks.pop(0) if self.chunks else b''

    def send(self, data):
        self.s.point('send')
        self.writes.append(bytes(data))
        return len(data)


THREAD_SCRIPTS = {
    'mask-mask': [[dict(kind='req', fc=22, address=2, and_mask=0x00F0, or_mask=0x0A00)],
                  [dict(kind='req', fc=22, address=2, and_mask=0x000F, or_mask=0xB000)]],
    'write-read': [[dict(kind='req', fc=6, address=2, value=0x00A1), dict(kind='req', fc=3, address=2, count=1)],
                   [dict(kind='req', fc=6, address=2, value=0x00B1)]],
    'multi-read': [[dict(kind='req', fc=16, address=2, count=2, byte_count=4, registers=[0xC1, 0xC2])],
                   [dict(kind='req', fc=3, address=2, count=2)]],
    # two connections asking for functions the server does not implement: each is told so about ITS function
    'illegal-illegal': [[b'\x41\x00'], [b'\x42\x00', dict(kind='req', fc=3, address=2, count=1)]],
}


def shard_threads(args):
    name, bound = args
    acc = Acc()
    from pymodbus.server.sync import ModbusConnectedRequestHandler as H
    msgs = THREAD_SCRIPTS[name]
    scripts = []
    for ci, ms in enumerate(msgs):
        reqs = [(1, 0x10 * (ci + 1) + j, m) for j, m in enumerate(ms)]
        scripts.append((reqs, [scenario.frame('tcp', u, t, m) for u, t, m in reqs]))
    allowed = serial_outcomes(scripts)

    def make(s):
        cfg = scenario.Cfg(True, (1,), False, False)
        reset.control_block()
        st = scenario.unit_state(0)
        real = scenario.LAY.build(st)
        ctx = servers.server_context(SchedCtx(real, s), True)
        srv = servers.Server('sync-tcp', 'tcp', ctx)
        srv.obj.decoder = SchedDecoder(srv.obj.decoder, s)
        socks = []
        for ci, (reqs, frames) in enumerate(scripts):
            sock = SchedSock(s, frames)
            socks.append(sock)
            h = H.__new__(H)
            h.request, h.client_address, h.server = sock, ('10.0.0.%d' % ci, 1), srv.obj
            h.setup()

            def body(h=h):
                h.running = True
                h.handle()
            s.spawn(body)
        return dict(real=real, socks=socks)

    def on_exec(s, h):
        acc.inc('evaluations')
        got = []
        for sock in h['socks']:
            ps = scenario.parse_out('tcp', sock.writes)
            got.append(tuple((p.get('tid'), p.get('pdu', b'garbage')) for p in ps))
        final = scenario.LAY.dump(h['real'])
        obs = (tuple(got), final)
        acc.add('observed_outcomes', ('threads', name, hash(obs)))
        wit = dict(part='threads', script=name, schedule=list(s.choices))
        if s.outcome != 'ok':
            acc.violation('C17/sync-tcp-threads/tcp/%s/%s' % (s.outcome, name), wit, 'schedule ends in ' + s.outcome, 'threads')
            return
        errs = [t.error for t in s.threads if t.error is not None]
        if errs:
            acc.violation('C17/sync-tcp-threads/tcp/escape:%s/%s' % (type(errs[0]).__name__, name), wit, repr(errs[0])[:100], 'threads')
        for ci, (reqs, frames) in enumerate(scripts):
            mine = [t for _, t, _ in reqs]
            theirs = [t for t, _ in got[ci]]
            if theirs != mine[:len(theirs)] or len(theirs) != len(mine):
                acc.violation('C17/sync-tcp-threads/tcp/wrong-ids/%s' % name, wit,
                              'connection %d sent transaction ids %r and was answered with %r' % (ci, mine, theirs), 'threads')
        ok = any(obs[1] == fin and all(rep[ci] == obs[0][ci] for ci in range(len(scripts))) for rep, fin in allowed)
        if not ok:
            acc.violation('C17/sync-tcp-threads/tcp/not-serialisable/%s' % name, wit,
                          'final registers %r, replies %r match no serial order'
                          % (dict(final[3]), [[x.hex() for _, x in g] for g in got]), 'threads')
    st = sched.explore(make, bound, horizon=400, on_exec=on_exec)
    acc.inc('states', st['executions'])
    acc.inc('transitions', st['steps'])
    acc.inc('schedules', st['executions'])
    acc.add('nontrivial', ('threads', name))
    acc.sample(dict(part='threads', script=name, schedules=st['executions'], preemption_bound=bound, max_steps=st['max_steps']), force=True)
    return acc


def shard(args):
    return {'equiv': shard_equiv, 'iso': shard_isolation, 'thr': shard_threads}[args[0]](args[1:])


def run(tier, seed):
    depth = 3 if tier == 'quick' else 4
    parts = 4 if tier == 'quick' else 8
    shards = [('equiv', fr, depth, k, parts) for fr in ('tcp', 'rtu', 'ascii', 'binary', 'tls') for k in range(parts)]
    nconn = 2 if tier == 'quick' else 3
    shards += [('iso', f, fr, nconn) for f, (kd, frs) in servers.FRONTS.items() for fr in frs if fr != 'tls']
    bound = 2 if tier == 'quick' else 3
    shards += [('thr', nme, bound) for nme in THREAD_SCRIPTS]
    acc = par.run_shards(shard, shards)
    acc.n['traces_validated_against_impl'] = acc.n.get('evaluations', 0)
    he = None
    if acc.n.get('histories_with_replies', 0) < 50 or acc.count('observed_outcomes') < 10 or acc.n.get('schedules', 0) < 20:
        he = 'vacuous exploration'
    return dict(acc=acc, level=LEVEL, harness_error=he,
                coverage=dict(
                    rule='(a) state = request history, one transition per request per front-end, all front-ends of a framer compared pairwise; '
                         '(b) state = interleaving prefix, transition = one chunk delivery; (c) state = schedule prefix of two real handler threads; '
                         'non-trivial = explored sub-spaces; observed_outcomes counts distinct (replies, final store) results',
                    bounds='(a) histories to depth %d over tokens %r, single/multi context, ignore_missing on/off, 4 framers; '
                           '(b) %d connections x 3 chunks (2 datagrams) with frames split across chunks, every interleaving, 17 front-end/framer pairs; '
                           '(c) 3 two-thread scripts, preemption bound %d, scheduling points recv/send/validate/getValues/setValues'
                           % (depth, TOK_A, nconn, bound),
                    schedules=acc.n.get('schedules', 0)),
                assumptions=['equivalence is demanded only for features all front-ends offer (no broadcast, no listen-only, no counter-reading requests)',
                             'thread preemption only at the named operations, not between arbitrary bytecodes'])


def replay(w):
    acc = Acc()
    if w['part'] == 'equiv':
        cfg = scenario.Cfg(*w['cfg'])
        dl = w.get('delivery', 'whole')
        if w['fronts'][0] == 'whole-delivery':
            a = run_history(FRONTS_FOR[w['framing']][0], w['framing'], cfg, tuple(w['seq']))
        else:
            a = run_history(w['fronts'][0], w['framing'], cfg, tuple(w['seq']), dl)
        b = run_history(w['fronts'][1], w['framing'], cfg, tuple(w['seq']), dl)
        return a != b, '%s: %r\n%s: %r' % (w['fronts'][0], [[x.hex() for x in o] for o in a[0]], w['fronts'][1], [[x.hex() for x in o] for o in b[0]])
    if w['part'] in ('isolation', 'burst'):
        a2 = shard_isolation((w['front'], w['framing'], 2))
        vs = [v for v in a2.violations if v['witness'] == w]
        return bool(vs), '\n'.join(v['msg'] for v in vs) or 'no violation'
    if w['part'] == 'isolation':
        shard_isolation((w['front'], w['framing'], w['nconn']))
        a2 = shard_isolation((w['front'], w['framing'], w['nconn']))
        vs = [v for v in a2.violations if v['witness']['order'] == w['order']]
        return bool(vs), '\n'.join(v['msg'] for v in vs) or 'no violation'
    a2 = shard_threads((w['script'], 3))
    vs = [v for v in a2.violations if v['witness']['schedule'] == w['schedule']]
    return bool(vs), '\n'.join(v['msg'] for v in vs) or 'schedule not violating (or beyond bound 3)'
