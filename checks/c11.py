"""C11 -- receivers resynchronise after noise and never go deaf.

Explicit-state search (E1, snapshot mode) over the states of the REAL RTU, ASCII
and binary framers under a garbage alphabet of chunk events (delimiter bytes, unit
id, function codes selecting each RTU size rule, bad-checksum frame, foreign-unit
frame, every truncation of a valid frame, a frame with a character deleted /
duplicated).  From EVERY reached state a bounded-liveness obligation is discharged
by running the real code forward: valid frames are fed (one per read, two per read;
the same frame repeated, two frames alternating) until 2 x 256 bytes of valid
traffic have been given; then each of the next 4 reads' frames must be delivered
exactly once, and the backlog must stay below 2 x 256 bytes + one frame throughout.
Also through the real serial server handler (sync-serial front-end).  Two caller policies: 'raw' (the caller just calls again after an exception) and
'reset' (the caller resets the framer after an exception, as the serial server
handler and the client transaction do).
"""
from mc.acc import Acc
from mc import par, states
from ref import adu, pdu
from harness import framers, gen, catalog

ID = 'C11'
LEVEL = 'model_checking'
UNIT = 0x11
FOREIGN = 0x22
WARM = 512


_VC = {}


def valid(framing, side, i):
    k = (framing, side, i)
    if k not in _VC:
        _VC[k] = _valid(framing, side, i)
    return _VC[k]


def _valid(framing, side, i):
    """i-th valid frame of the traffic (distinct, identifiable contents)"""
    if side == 'req':
        m = dict(kind='req', fc=3, address=0x0100 + i, count=2) if i % 2 == 0 else dict(kind='req', fc=6, address=0x0200 + i, value=i)
    else:
        m = dict(kind='rsp', fc=3, registers=[0x0100 + i, i]) if i % 2 == 0 else dict(kind='rsp', fc=6, address=0x0200 + i, value=i)
    return adu.build(framing, UNIT, pdu.encode(m))


def varlen(framing, side):
    """a valid frame whose length is announced by a byte well inside the frame (read/write multiple registers: byte 10)"""
    k = (framing, side, 'varlen')
    if k not in _VC:
        for salt in range(64):          # contents chosen so that no delimiter byte of the binary framing occurs in the frame (C10's finding)
            if side == 'req':
                m = dict(kind='req', fc=0x17, read_address=0x0101, read_count=2, write_address=0x0202, write_count=2, write_byte_count=4,
                         write_registers=[0x1111 + salt, 0x2222])
            else:
                m = dict(kind='rsp', fc=0x17, registers=[0x0A0A + salt, 0x0B0B, 0x0C0C])
            f = adu.build(framing, UNIT, pdu.encode(m))
            if framing != 'binary' or (b'{' not in f[1:-1] and b'}' not in f[1:-1]):
                break
        _VC[k] = f
    return _VC[k]


def shortest(framing, side):
    k = (framing, side, 'shortest')
    if k not in _VC:
        m = dict(kind='req', fc=7) if side == 'req' else dict(kind='rsp', fc=7, status=0x5A)
        _VC[k] = adu.build(framing, UNIT, pdu.encode(m))
    return _VC[k]


def same(framing, side):
    k = (framing, side, 'same')
    if k not in _VC:
        _VC[k] = _same(framing, side)
    return _VC[k]


def _same(framing, side):
    m = dict(kind='req', fc=3, address=0, count=1) if side == 'req' else dict(kind='rsp', fc=3, registers=[7])
    return adu.build(framing, UNIT, pdu.encode(m))


def garbage(framing, side):
    """[(class name, bytes)]"""
    ev = [('byte%02X' % b, bytes([b])) for b in gen.B8]
    ev.append(('unit', bytes([UNIT])))
    for fc in (0x03, 0x10, 0x2B, 0x83, 0x18):
        ev.append(('fc%02X' % fc, bytes([fc])))
    good = same(framing, side)
    bad = bytearray(good)
    bad[-3 if framing != 'rtu' else -1] ^= 0x01
    if framing == 'ascii':
        bad = bytearray(good)
        bad[-3] = ord('0') if good[-3:-2] != b'0' else ord('1')
    ev.append(('bad-checksum', bytes(bad)))
    m = dict(kind='req', fc=3, address=0, count=1) if side == 'req' else dict(kind='rsp', fc=3, registers=[7])
    ev.append(('foreign-unit', adu.build(framing, FOREIGN, pdu.encode(m))))
    # what else travels on a shared line: another station's exception reply (checksum right, function code with the
    # error bit), and -- seen by a receiver of requests -- an exception reply carrying its own unit id
    ev.append(('foreign-unit-exception', adu.build(framing, FOREIGN, bytes([0x83, 0x02]))))
    if side == 'req':
        ev.append(('own-unit-exception', adu.build(framing, UNIT, bytes([0x83, 0x02]))))
    for k in range(1, len(good)):
        ev.append(('trunc%d' % k, good[:k]))
    mid = len(good) // 2
    ev.append(('char-deleted', good[:mid] + good[mid + 1:]))
    ev.append(('char-duplicated', good[:mid] + good[mid:mid + 1] + good[mid:]))
    if framing == 'ascii':
        ev.append(('non-hex', good[:3] + b'ZZ' + good[5:]))
        ev.append(('bare-colon-crlf', b':\r\n'))
    if framing == 'binary':
        ev.append(('empty-braces', b'{}'))
    # the variable-length frame of the traffic with its length byte damaged (checksum then wrong)
    vl = bytearray(varlen(framing, side))
    pos = {'rtu': 10, 'binary': 11, 'ascii': 21}[framing] if side == 'req' else {'rtu': 2, 'binary': 3, 'ascii': 5}[framing]
    vl[pos] ^= (0x04 if framing != 'ascii' else 0x01)
    ev.append(('length-byte-damaged', bytes(vl)))
    # a frame whose checksum is right but whose PDU the decoder cannot take (byte count disagreeing with the contents)
    badpdu = bytes([0x10, 0x00, 0x01, 0x00, 0x02, 0x02, 0x00, 0x0A]) if side == 'req' else bytes([0x03, 0x03, 0x00, 0x07, 0x00])
    ev.append(('good-checksum-bad-pdu', adu.build(framing, UNIT, badpdu)))
    ev.append(('good-checksum-unknown-function', adu.build(framing, UNIT, bytes([0x41, 0x00]))))
    # a long burst of line noise without any delimiter of the framing (longer than one, two and four maximum frames)
    for n in (300, 600, 1100, 2100):
        x, out = 12345, bytearray()
        while len(out) < n:
            x = (x * 1103515245 + 12345) & 0x7FFFFFFF
            b = (x >> 16) & 0xFF
            if bytes([b]) in (b':', b'\r', b'\n', b'{', b'}') or (framing == 'rtu' and len(out) == 0 and b == UNIT):
                continue
            out.append(b)
        ev.append(('noise%d' % n, bytes(out)))
    return ev


def gclass(name):
    if name.startswith('byte'):
        return 'byte'
    if name.startswith('trunc'):
        return 'truncated'
    if name.startswith('fc'):
        return 'fc'
    if name.startswith('noise'):
        return 'noise'
    return name


FAR = 2 * 65541      # two frames of the largest size any RTU length rule can announce (16-bit byte count)


def liveness(framing, side, snap, per_read, traffic, policy):
    """returns None or (kind, detail).  A failure within the 512-byte bound is re-examined with a far
    horizon to tell 'recovers late' from 'never recovers'."""
    r = _liveness(framing, side, snap, per_read, traffic, policy, WARM)
    if r is None:
        return None
    far = _liveness(framing, side, snap, 64, traffic, policy, FAR, backlog_bound=None)
    if far is None:
        return 'late', r[1] + '; recovers only within %d bytes of valid traffic' % FAR
    return r[0] if r[0] != 'late-or-lost' else 'deaf', r[1] + '; still not recovered after %d bytes' % FAR


def _liveness(framing, side, snap, per_read, traffic, policy, WARM, backlog_bound=True):
    fr = framers.restore(framing, side, snap)
    got = []
    maxbuf = 0
    one = len(same(framing, side))
    fed = 0
    i = 0
    raised = 0
    reset_failed = []

    def read(frames):
        nonlocal maxbuf, raised
        out, exc = framers.feed(fr, b''.join(frames), [UNIT], False)
        got.extend(out)
        if exc is not None:
            raised += 1
            if policy == 'reset':
                try:
                    fr.resetFrame()
                except Exception as e:   # noqa
                    reset_failed.append(e)
        maxbuf = max(maxbuf, framers.buffered(fr))
    while fed < WARM:
        fs = [same(framing, side) if traffic == 'same' else valid(framing, side, i + k) for k in range(per_read)]
        if traffic == 'short':          # the shortest valid frames of the protocol among the traffic
            fs[0] = shortest(framing, side)
        if traffic == 'varlen':
            fs[0] = varlen(framing, side)
        i += per_read
        read(fs)
        fed += sum(len(f) for f in fs)
    n0 = len(got)
    expect = []
    for r in range(4):
        fs = [valid(framing, side, 1000 + r * per_read + k) for k in range(per_read)]
        keys = [1000 + r * per_read + j for j in range(per_read)]
        if traffic == 'short' and per_read > 1:
            fs[0], keys[0] = shortest(framing, side), 'shortest'       # ... which must be delivered like any other
        if traffic == 'varlen' and per_read > 1:
            fs[0], keys[0] = varlen(framing, side), 'varlen'
        for key, f in zip(keys, fs):
            ek = (framing, side, 'exp', key)
            if ek not in _VC:
                _VC[ek] = framers.feed(framers.make(framing, side), f, [UNIT], False)[0]
            if key in ('shortest', 'varlen'):
                continue            # delivered identically every time: counted below, not by identity
            expect.extend(_VC[ek])
        read(fs)
    tail = got[n0:]
    if reset_failed:
        return 'reset-raises', 'resetFrame() itself raised %r with %d bytes buffered' % (reset_failed[0], framers.buffered(fr))
    if backlog_bound and maxbuf >= WARM + one + 16:
        return 'backlog-unbounded', 'backlog reached %d bytes' % maxbuf
    if traffic in ('short', 'varlen') and per_read > 1:
        sk = (framing, side, 'exp', 'shortest' if traffic == 'short' else 'varlen')
        n_short = sum(1 for x in tail if x in _VC[sk])
        if n_short != 4 * len(_VC[sk]):
            return 'late-or-lost', 'only %d of the 4 shortest valid frames fed after %d bytes of valid traffic were delivered' % (n_short, fed)
    missing = [e for e in expect if tail.count(e) == 0]
    dup = [e for e in expect if tail.count(e) > 1]
    if missing:
        return ('deaf' if len(missing) == len(expect) else 'late-or-lost',
                '%d of %d frames fed after %d bytes of valid traffic were not delivered (%d exceptions)' % (len(missing), len(expect), fed, raised))
    if dup:
        return 'duplicated', '%d frames delivered twice' % len(dup)
    return None


def explore(acc, framing, side, depth, reduced_from=2, part=0, parts=1):
    ev = garbage(framing, side)
    small = [e for e in ev if gclass(e[0]) in ('bad-checksum', 'foreign-unit', 'char-deleted', 'non-hex', 'empty-braces')
             or e[0] in ('byte7B', 'byte7D', 'byte3A', 'byte0D', 'unit', 'fc10', 'trunc3')]
    fresh = framers.snapshot(framers.make(framing, side))
    depth_of = {fresh: 0}
    cfg = '%s/%s' % (framing, side)

    def events(s):
        lst = ev if depth_of.get(s, 0) < reduced_from else small
        return range(len(lst))

    def step(s, i):
        lst = ev if depth_of.get(s, 0) < reduced_from else small
        fr = framers.restore(framing, side, s)
        out, exc = framers.feed(fr, lst[i][1], [UNIT], False)
        ns = framers.snapshot(fr)
        if ns not in depth_of:
            depth_of[ns] = depth_of[s] + 1
        return ns, (lst[i][0], exc)

    names = {}

    counter = [0]

    def on_state(s, path):
        counter[0] += 1
        if counter[0] % parts != part:
            return
        if path == ():
            hist = []
        else:
            hist = []
            cur = fresh
            for idx in path(s):
                lst = ev if depth_of.get(cur, 0) < reduced_from else small
                hist.append(lst[idx][0])
                fr = framers.restore(framing, side, cur)
                framers.feed(fr, lst[idx][1], [UNIT], False)
                cur = framers.snapshot(fr)
        for per_read, traffic, policy in [(p, t, y) for p in (1, 2) for t in ('same', 'alternating') for y in ('raw', 'reset')] + [(2, 'short', 'raw'), (1, 'short', 'reset'), (2, 'varlen', 'raw'), (2, 'varlen', 'reset')]:
            if True:
                if True:
                    acc.inc('obligations')
                    r = liveness(framing, side, s, per_read, traffic, policy)
                    if r:
                        seq = '+'.join(gclass(h) for h in hist) or 'fresh'
                        acc.violation('C11/%s/%s/%s/%s/%s' % (framing, side, r[0], policy, seq),
                                      dict(framing=framing, side=side, garbage=hist, per_read=per_read, traffic=traffic, policy=policy),
                                      r[1], cfg)
                    else:
                        acc.inc('discharged')
        if s != fresh:
            acc.add('nontrivial', (cfg, hash(s) & 0xFFFFFFFF))

    st, _ = states.bfs_snapshot([fresh], events, step, on_state=on_state, max_depth=depth)
    if part == 0:
        acc.inc('states', st.states)
        acc.inc('transitions', st.transitions)
    if not acc.samples and part == 0:
        acc.sample(dict(framer=cfg, garbage_events=[(n, b.hex()) for n, b in ev[:6]] + ['... %d events' % len(ev)],
                        states=st.states, valid_frame=same(framing, side).hex()))


def explore_handler(acc, framing, depth):
    """the same obligation through the REAL serial server handler (which resets its framer on exceptions):
    garbage chunks, then valid requests one per read; after 512 bytes of valid traffic each of the next
    4 requests must be answered exactly once"""
    from harness import servers, scenario
    ev = garbage(framing, 'req')
    small = [e for e in ev if gclass(e[0]) in ('bad-checksum', 'foreign-unit', 'char-deleted', 'non-hex', 'empty-braces', 'bare-colon-crlf')
             or e[0] in ('byte7B', 'byte7D', 'byte3A', 'byte0D', 'unit', 'fc10', 'trunc3', 'trunc5')]
    seqs = [(a,) for a in ev] + [(a, b) for a in ev for b in small]
    if depth >= 3:
        seqs += [(a, b, c) for a in small for b in small for c in small]
    one = len(same(framing, 'req'))
    for seq in seqs:
        cfg = scenario.Cfg(False, (UNIT,), False, False)
        ctx, ref, real = scenario.build(cfg)
        srv = servers.Server('sync-serial', framing, ctx)
        conn = srv.open()
        for name, chunk in seq:
            conn.run_script([chunk])
        fed, i = 0, 0
        while fed < WARM:
            f = valid(framing, 'req', i)
            conn.run_script([f])
            fed += len(f)
            i += 1
        answered = 0
        for r in range(4):
            out = conn.run_script([valid(framing, 'req', 1000 + r)])
            answered += 1 if len(out) == 1 else 0
        backlog = framers.buffered(srv.obj.handler.framer)
        acc.inc('obligations')
        names = [n for n, _ in seq]
        what = None
        if answered < 4:
            what = 'deaf' if answered == 0 else 'late-or-lost'
        elif backlog >= WARM + one + 16:
            what = 'backlog-unbounded'
        if srv.escaped:
            what = 'escape:' + type(srv.escaped[0][1]).__name__
        if what:
            acc.violation('C11/%s/handler/%s/handler/%s' % (framing, what, '+'.join(gclass(n) for n in names)),
                          dict(framing=framing, side='handler', garbage=names), '%d of 4 requests answered after the garbage and 512 bytes of valid traffic' % answered,
                          '%s/handler' % framing)
        else:
            acc.inc('discharged')
    acc.add('nontrivial', ('handler', framing))


def explore_coalesced(acc, framing, side):
    """the garbage and the valid traffic that follows it arrive in ONE read (a receiver that was busy, a buffered
    adapter): for every garbage event g of the alphabet, fed to a fresh receiver as g + valid frames -- more than 512
    bytes of them, then 8 more -- the last 8 frames (everything after the allowance) must be delivered."""
    for name, g in garbage(framing, side):
        fs, n, i = [], 0, 0
        while n < WARM + 8:
            f = valid(framing, side, i)
            fs.append(f)
            n += len(f)
            i += 1
        tail = [valid(framing, side, 2000 + k) for k in range(8)]
        expect = []
        for k, f in enumerate(tail):
            ek = (framing, side, 'exp', 2000 + k)
            if ek not in _VC:
                _VC[ek] = framers.feed(framers.make(framing, side), f, [UNIT], False)[0]
            expect.extend(_VC[ek])
        fr = framers.make(framing, side)
        out, exc = framers.feed(fr, g + b''.join(fs) + b''.join(tail), [UNIT], False)
        # what was still buffered is looked at again when the next frame arrives
        out2, exc2 = framers.feed(fr, valid(framing, side, 3000), [UNIT], False)
        acc.inc('obligations')
        got = list(out) + list(out2)
        missing = [e for e in expect if got.count(e) == 0]
        if missing:
            acc.violation('C11/%s/%s/coalesced-read/%s' % (framing, side, gclass(name)),
                          dict(framing=framing, side=side, coalesced=name),
                          'one read = %s (%d bytes) + %d bytes of valid frames + 8 more frames: %d of the last 8 were not delivered (%d messages delivered in all%s)'
                          % (name, len(g), n, len(missing), len(got), ', exception %r' % (exc,) if exc else ''), '%s/%s' % (framing, side))
        else:
            acc.inc('discharged')
    acc.add('nontrivial', ('coalesced', framing, side))


def shard(args):
    if args[0] == 'handler':
        acc = Acc()
        explore_handler(acc, args[1], args[2])
        return acc
    if args[0] == 'coalesced':
        acc = Acc()
        explore_coalesced(acc, args[1], args[2])
        return acc
    framing, side, depth, part, parts = args
    acc = Acc()
    explore(acc, framing, side, depth, part=part, parts=parts)
    return acc


def run(tier, seed):
    depth = 2 if tier == 'quick' else 3
    parts = 8
    shards = [(f, s, depth, k, parts) for f in ('rtu', 'ascii', 'binary') for s in ('req', 'rsp') for k in range(parts)]
    shards += [('handler', f, depth) for f in ('rtu', 'ascii', 'binary')]
    shards += [('coalesced', f, s) for f in ('rtu', 'ascii', 'binary') for s in ('req', 'rsp')]
    acc = par.run_shards(shard, shards)
    acc.n['traces_validated_against_impl'] = acc.n.get('obligations', 0)
    acc.n['evaluations'] = acc.n.get('obligations', 0)
    he = None if acc.n.get('discharged', 0) > 100 else 'vacuous: no liveness obligation could be discharged'
    return dict(acc=acc, level=LEVEL, harness_error=he,
                coverage=dict(
                    rule='state = complete framer snapshot reached by garbage events; for every state 8 bounded-liveness obligations '
                         '(1|2 frames per read x same|alternating traffic x raw|reset caller policy) are discharged by running the real framer; '
                         'non-trivial = states other than the fresh framer',
                    bounds='garbage alphabet per framer (16 delimiter/boundary bytes, unit id, 5 function codes, bad checksum, foreign unit, every truncation, '
                           'deleted/duplicated character, framer-specific degenerate delimiters); depth %d (full alphabet at depth < 2, reduced beyond); '
                           'warm-up 512 bytes of valid traffic, then 4 reads; plus, per garbage event, one read holding the event, > 512 bytes of valid frames and 8 more frames' % depth),
                assumptions=['"bounded amount of valid traffic" is taken as 2 x 256 bytes as in the property text',
                             'an exception escaping processIncomingPacket is not itself a C11 violation; the two caller policies model what callers do next'])


def replay(w):
    if w['side'] == 'handler':
        acc = Acc()
        explore_handler(acc, w['framing'], 3)
        vs = [v for v in acc.violations if v['witness'] == w]
        return bool(vs), '\n'.join(v['msg'] for v in vs) or 'no violation'
    if 'coalesced' in w:
        acc = Acc()
        explore_coalesced(acc, w['framing'], w['side'])
        vs = [v for v in acc.violations if v['witness'] == w]
        return bool(vs), '\n'.join(v['msg'] for v in vs) or 'no violation'
    framing, side = w['framing'], w['side']
    ev = dict(garbage(framing, side))
    fr = framers.make(framing, side)
    lines = []
    for g in w['garbage']:
        out, exc = framers.feed(fr, ev[g], [UNIT], False)
        lines.append('garbage %-16s %s -> %d msgs %s' % (g, ev[g].hex(), len(out), 'EXC %r' % exc if exc else ''))
    r = liveness(framing, side, framers.snapshot(fr), w['per_read'], w['traffic'], w['policy'])
    lines.append('liveness: %r' % (r,))
    return r is not None, '\n'.join(lines)
