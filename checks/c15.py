"""C15 -- concurrent callers of one synchronous client are serialised.

Controlled-scheduler exploration (E3): 2..4 REAL threads call execute() on ONE real
client (TCP, serial RTU, serial ASCII with broadcast enabled) whose transport is the
scripted line; the transaction manager's RLock is replaced by an instrumented
re-entrant lock, and connect, every send, every receive call and every lock
acquire/release are scheduling points.  ALL schedules with at most 2 (quick) / 3
(thorough) preemptions are run.  Oracle on the transport log: no other thread's
transport operation falls between a transaction's send and the end of its receive,
every caller gets the reference reply to ITS request, every schedule terminates
(no deadlock, no horizon hit).
"""
from mc.acc import Acc
from mc import par, sched
from ref import adu, pdu, datamodel
from harness import clients, clientsim, bind

ID = 'C15'
LEVEL = 'model_checking'
UNIT = 0x11


def thread_requests(shape):
    """per thread: list of request messages; replies identify the caller (distinct addresses / lengths)"""
    nthreads, ntx = shape
    out = []
    for t in range(nthreads):
        reqs = []
        for j in range(ntx):
            k = t * 3 + j
            if k % 4 == 3:
                reqs.append(dict(kind='req', fc=3, address=60 + k, count=4))           # answered with exception 02 (outside the table)
            elif k % 4 == 1:
                reqs.append(dict(kind='req', fc=1, address=1 + k, count=9 + k))        # bit reply, two data bytes
            else:
                reqs.append(dict(kind='req', fc=3, address=2 + 5 * k, count=1 + (k % 3)))
        out.append(reqs)
    return out


class Harness(object):
    def __init__(self, s, kind, shape, broadcast, fault=None):
        self.s, self.kind, self.shape, self.broadcast = s, kind, shape, broadcast
        self.fault = fault            # None | ('drop-first', retries): the first request on the wire is never answered
        self.dropped = None
        self.clock = clients.VClock()
        osleep = self.clock.sleep

        def sleep(d):
            s.point('sleep')           # a caller backing off is a place where another thread may run
            return osleep(d)
        self.clock.sleep = sleep
        self.store = clientsim.LAY.ref(clientsim.LAY.initial_state())
        self.log = []                 # (thread id, op)
        self.results = {}
        self.errors = {}
        self.framing = clients.FRAMING[kind]
        self.line = clients.Line(self.clock, self.peer)
        self.split_reply = kind != 'udp'          # a datagram arrives whole
        self.patch = clients.Patched(self.clock, self.line)
        self.patch.__enter__()
        kw = dict(retries=0, timeout=3)
        if fault and fault[0] == 'drop-first':
            kw = dict(retries=fault[1], retry_on_empty=True, retry_on_invalid=True, backoff=0.3, timeout=3)
        if fault and fault[0] in ('dropd-first', 'late-first', 'refuse-first', 'refusetwo-first'):
            kw = dict(timeout=3)                      # the library's default retry options
        if broadcast:
            kw['broadcast_enable'] = True
        me_ = self

        class LoggedLock(sched.SLock):
            def release(self_):
                t = s.me()
                if t is not None and self_.owner is t and self_.depth == 1:
                    me_.log.append((t.tid, 'rel'))          # the lock is let go (the last time before execute() returns ends the transaction)
                return sched.SLock.release(self_)

            def acquire(self_, blocking=True, timeout=-1):
                # a wait with a deadline gives up once the (virtual) clock has passed it
                t = s.me()
                if t is None or not blocking or timeout is None or timeout < 0 or self_.owner is t:
                    return sched.SLock.acquire(self_, blocking, timeout)
                t0 = me_.clock.t
                s.point(self_.name + '.acquire', wait_for=lambda: self_.owner is None or self_.owner is t or me_.clock.t - t0 >= timeout)
                if self_.owner is None or self_.owner is t:
                    self_.owner = t
                    self_.depth += 1
                    return True
                return False

            def __exit__(self_, *a):
                self_.release()
        # every lock the transaction manager creates is an instrumented one (so that a blocked thread is
        # 'not enabled' for the scheduler instead of a blocked OS thread)
        import threading
        import pymodbus.transaction as ptx
        factory = lambda *a, **k: LoggedLock(s, 'lock')   # noqa: E731
        self._saved_rlock = (getattr(ptx, 'RLock', None), threading.RLock, threading.Lock)
        if self._saved_rlock[0] is not None:
            ptx.RLock = factory
        threading.RLock = factory        # however the manager spells it -- only while the client is being constructed
        threading.Lock = factory
        try:
            self.client = clients.make_client(kind, self.line, **kw)
        finally:
            threading.RLock, threading.Lock = self._saved_rlock[1], self._saved_rlock[2]
        me = self

        def tid():
            t = s.me()
            return t.tid if t is not None else -1

        def instrument(sock):
            # scheduling points at every transport operation
            if sock is None or getattr(sock, '_c15', False):
                return
            sock._c15 = True
            for name in ('send', 'recv', 'write', 'read', 'sendto', 'recvfrom'):
                if hasattr(sock, name):
                    orig = getattr(sock, name)

                    def wrapped(*a, _orig=orig, _name=name, **k):
                        s.point(_name)
                        me.log.append((tid(), _name))
                        return _orig(*a, **k)
                    setattr(sock, name, wrapped)
        instrument(self.client.socket)
        # ... and one inside the decoding of every reply (no transport operation falls between the end of the receive
        # and the end of the transaction)
        _CUR_SCHED[0] = s
        for cls in _sched_response_classes():
            self.client.framer.decoder.register(cls)
        oc = self.client.connect

        def connect():
            s.point('connect')
            r = oc()
            instrument(self.client.socket)          # a connection re-opened after a failure is observed like the first
            return r
        self.client.connect = connect
        self.requests = thread_requests(shape)
        for t in range(shape[0]):
            self.results[t] = []
            s.spawn(self.body(t))

    def peer(self, line, data):
        p = adu.parse_one(self.framing, data)
        if p is None:
            return
        m = pdu.decode('req', p['pdu'])
        if self.fault and self.fault[0] in ('drop-first', 'dropd-first') and self.dropped is None:
            self.dropped = p['unit'] - UNIT
            return                                   # the device misses this request: its sender times out
        if self.fault and self.fault[0] in REFUSALS and self.dropped is None:
            # the device dies on this request: no answer, the connection is gone, and the next attempt(s) to
            # open a new one are refused -- a caller may be told so (ConnectionException), nobody may hang
            self.dropped = p['unit'] - UNIT
            line.dead.add(line.conn)
            line.refuse = REFUSALS[self.fault[0]]
            return
        if self.fault and self.fault[0] == 'late-first' and self.dropped is None:
            # the device answers this request only after its sender has given up
            self.dropped = p['unit'] - UNIT
            r = datamodel.execute(self.store, m)
            line.push(adu.build(self.framing, p['unit'], pdu.encode(r), tid=p['tid'] or 0), 3.6)
            return
        if p['unit'] == 0 and self.broadcast:
            datamodel.execute(self.store, m)
            return                                   # a broadcast is never answered
        r = datamodel.execute(self.store, m)
        frame = adu.build(self.framing, p['unit'], pdu.encode(r), tid=p['tid'] or 0)
        if self.fault and self.fault[0] == 'slow' and len(frame) > 6:
            k = {'tcp': 8, 'rtu': 2, 'ascii': 5, 'binary': 3}[self.framing]      # what the client reads first
            line.push(frame[:k], 2.2)                 # a slow device: each piece arrives within the read timeout (3 s),
            line.push(frame[k:], 4.4)                 # the whole transaction takes longer than that
        elif self.split_reply and len(frame) > 6:
            line.push(frame[:5])                      # reply delivered in two pieces (latency)
            line.push(frame[5:])
        else:
            line.push(frame)

    def expected(self, m):
        st = clientsim.LAY.ref(clientsim.LAY.initial_state())
        return pdu.encode(datamodel.execute(st, m))

    def body(self, t):
        def run():
            for j, m in enumerate(self.requests[t]):
                if self.broadcast and t == 1 and j == 0:
                    req = bind.to_obj(dict(kind='req', fc=6, address=50, value=0x0B0B, unit=0))     # broadcast write
                    r = self.client.execute(req)
                    self.log.append((t, 'end'))
                    self.results[t].append(('broadcast', r))
                    continue
                if self.fault and self.fault[0] == 'raise-first' and t == 0 and j == 0:
                    # a request that cannot be encoded (register value 70000): the call raises -- and must not
                    # leave the client unusable for the other callers
                    try:
                        self.client.write_register(1, 70000, unit=UNIT + t)
                        self.results[t].append(('poison', 'no exception'))
                    except Exception as e:   # noqa
                        self.results[t].append(('poison', e))
                    self.log.append((t, 'end'))
                    continue
                req = bind.to_obj(dict(m, unit=UNIT + t))         # every caller talks to its own unit
                if self.fault and self.fault[0] in REFUSALS:
                    from pymodbus.exceptions import ConnectionException
                    try:
                        r = self.client.execute(req)
                    except ConnectionException as e:
                        self.log.append((t, 'end'))
                        self.results[t].append(('refused', e))
                        continue
                else:
                    r = self.client.execute(req)
                self.log.append((t, 'end'))
                self.results[t].append((m, r))
        return run

    def close(self):
        import threading
        import pymodbus.transaction as ptx
        if self._saved_rlock[0] is not None:
            ptx.RLock = self._saved_rlock[0]
        threading.RLock, threading.Lock = self._saved_rlock[1], self._saved_rlock[2]
        self.patch.__exit__(None, None, None)


def judge(acc, s, h, name, bound):
    wit = dict(config=name, schedule=list(s.choices))
    problems = []
    if s.outcome != 'ok':
        problems.append((s.outcome, 'the schedule ends in ' + s.outcome))
    for t in s.threads:
        if t.error is not None:
            problems.append(('raised:' + type(t.error).__name__, 'thread %d: %r' % (t.tid, t.error)))
    # mutual exclusion on the transport: between a thread's send and its last receive of that transaction
    # no other thread touches the transport
    # a transaction ends where its caller let go of the lock for the last time before execute() returned
    log, last_rel = list(h.log), {}
    for i, (tid, op) in enumerate(h.log):
        if op == 'rel':
            last_rel[tid] = i
        elif op == 'end':
            if tid in last_rel:
                log[last_rel.pop(tid)] = (tid, 'end')
                log[i] = (tid, 'rel')
    owner = None
    for tid, op in log:
        if op == 'rel':
            continue
        if op == 'end':
            if owner == tid:
                owner = None
            continue
        if op in ('send', 'write', 'sendto'):
            if owner is not None and owner != tid:
                problems.append(('overlap', 'thread %d sends while the transaction of thread %d is between send and end of receive' % (tid, owner)))
            owner = tid
        else:
            if owner is not None and owner != tid:
                problems.append(('overlap', 'thread %d receives inside the transaction of thread %d' % (tid, owner)))
    # every caller gets the reply to its own request
    nref = 0
    for t, res in h.results.items():
        for m, r in res:
            if m in ('broadcast', 'poison'):
                continue
            if m == 'refused':
                nref += 1
                continue
            d = clientsim.describe(r)
            want = h.expected(m)
            if h.fault and h.fault[0] in ('drop-first', 'dropd-first', 'late-first', 'refuse-first', 'refusetwo-first') and h.fault[1] == 0 and h.dropped == t and d[0] == 'error' and not h.__dict__.get('_excused'):
                h._excused = True                    # the one request the device missed, no retry configured: an error object is the answer
                continue
            if d[0] != 'response' or d[2] != want:
                problems.append(('wrong-reply', 'thread %d asked %s and got %r (expected %s)' % (t, pdu.encode(m).hex(), d[:3], want.hex())))
        if s.outcome == 'ok' and len(res) != len(h.requests[t]):
            problems.append(('lost-call', 'thread %d finished %d of %d calls' % (t, len(res), len(h.requests[t]))))
    if nref > h.line.refused:
        problems.append(('refused', '%d callers were told the connection failed, %d connection attempts were refused' % (nref, h.line.refused)))
    acc.add('wire_orders', (name, tuple(tid for tid, op in h.log if op in ('send', 'write', 'sendto'))))
    seen = set()
    for what, msg in problems:
        if what in seen:
            continue
        seen.add(what)
        acc.violation('C15/%s/%s' % (name.split(':')[0], what), wit, msg, name)


CONFIGS = {
    'quick': [('tcp', (2, 1), False), ('tcp', (2, 2), False), ('tcp', (3, 1), False), ('udp', (2, 1), False), ('udp', (2, 2), False),
              ('serial-rtu', (2, 1), False), ('serial-rtu', (2, 2), False), ('serial-ascii', (2, 1), True)],
    'thorough': [('udp', (2, 1), False), ('udp', (2, 2), False), ('udp', (3, 1), False),
                 ('tcp', (2, 1), False), ('tcp', (2, 2), False), ('tcp', (3, 1), False), ('tcp', (2, 3), False), ('tcp', (3, 2), False), ('tcp', (4, 1), False),
                 ('serial-rtu', (2, 1), False), ('serial-rtu', (2, 2), False), ('serial-rtu', (3, 1), False), ('serial-rtu', (2, 3), False),
                 ('serial-ascii', (2, 1), True), ('serial-ascii', (2, 2), True), ('serial-ascii', (3, 1), True)],
}


def parse_name(name):
    name = name.replace('+debuglog', '')
    head, sh = name.split(':')
    fault = None
    if '+drop' in head and '+dropd' not in head:
        head, r = head.split('+drop')
        fault = ('drop-first', int(r))
    for tag in ('dropd', 'late', 'refusetwo', 'refuse'):
        if '+' + tag in head:
            head = head.replace('+' + tag, '')
            fault = (tag + '-first', 0)
    if '+raise' in head:
        head = head.replace('+raise', '')
        fault = ('raise-first', 0)
    if '+slow' in head:
        head = head.replace('+slow', '')
        fault = ('slow', 0)
    return head.replace('+broadcast', ''), tuple(int(x) for x in sh.split('x')), '+broadcast' in head, fault


REFUSALS = {'refuse-first': 1, 'refusetwo-first': 2}
_CUR_SCHED = [None]
_SCHED_CLASSES = []


def _sched_response_classes():
    if not _SCHED_CLASSES:
        from pymodbus.factory import ClientDecoder
        from harness import framers as _fr
        for cls in _fr.standard_classes(ClientDecoder):
            def decode(self, data, _cls=cls):
                if _CUR_SCHED[0] is not None:
                    _CUR_SCHED[0].point('pdu-decode')
                return _cls.decode(self, data)
            _SCHED_CLASSES.append(type(cls.__name__, (cls,), dict(decode=decode, __doc__=cls.__doc__)))
    return _SCHED_CLASSES


def shard(args):
    kind, shape, broadcast, bound = args[:4]
    fault = args[4] if len(args) > 4 else None
    debug = len(args) > 5 and args[5]
    acc = Acc()
    if debug:
        # the same exploration with the library's debug logging switched on
        from harness.repo import DebugLogging
        with DebugLogging():
            return _shard(acc, kind, shape, broadcast, bound, fault, '+debuglog')
    return _shard(acc, kind, shape, broadcast, bound, fault, '')


def _shard(acc, kind, shape, broadcast, bound, fault, suffix):
    name = '%s%s%s:%dx%d' % (kind, '+broadcast' if broadcast else '', ('+drop%d' % fault[1] if fault[0] == 'drop-first' else '+' + fault[0].split('-')[0]) if fault else '', shape[0], shape[1])
    name = name.replace(':', suffix + ':')
    hs = []

    def make(s):
        h = Harness(s, kind, shape, broadcast, fault)
        hs.append(h)
        return h

    def on_exec(s, h):
        h.close()
        acc.inc('evaluations')
        judge(acc, s, h, name, bound)
    st = sched.explore(make, bound, horizon=3000, on_exec=on_exec, max_execs=60000)
    acc.inc('states', st['executions'])
    acc.inc('transitions', st['steps'])
    acc.inc('traces_validated_against_impl', st['executions'])
    if st['capped']:
        acc.cap('max-executions:' + name)
    acc.add('nontrivial', name)
    acc.sample(dict(config=name, schedules=st['executions'], steps=st['steps'], preemption_bound=bound, deadlocks=st['deadlocks'], hangs=st['hangs']), force=True)
    return acc


def run(tier, seed):
    bound = 2 if tier == 'quick' else 3
    shards = [(k, sh, bc, bound if sh[0] * sh[1] <= 4 else 2) for k, sh, bc in CONFIGS[tier]]
    # the first request on the wire is never answered: its caller times out (and retries once when configured to);
    # the other callers are queued meanwhile
    for k in ('tcp', 'serial-rtu'):
        shards.append((k, (2, 2), False, 2, ('raise-first', 0)))
        shards.append((k, (2, 2), False, 2, ('dropd-first', 0)))      # an unanswered request under the default retry options
        shards.append((k, (2, 2), False, 2, ('late-first', 0)))       # ... and one answered only after its sender gave up
        shards.append((k, (2, 2), False, 2, ('refuse-first', 0)))     # the device dies on the first request, the next connection attempt is refused
        if tier == 'thorough':
            shards.append((k, (2, 2), False, 2, ('refusetwo-first', 0)))
        shards.append((k, (2, 1), False, 2, ('slow', 0)))
        shards.append((k, (3, 1), False, 2, ('slow', 0)))
        for retries in (0, 1):
            shards.append((k, (2, 2), False, 2, ('drop-first', retries)))
            if tier == 'thorough':
                shards.append((k, (3, 1), False, 2, ('drop-first', retries)))
                shards.append((k, (2, 2), False, 3, ('drop-first', retries)))
    shards.append(('tcp', (2, 1), False, 2, None, True))
    shards.append(('serial-rtu', (2, 1), False, 2, None, True))
    acc = par.run_shards(shard, shards)
    he = None
    if acc.count('wire_orders') < 2 * len(shards) - 2:
        he = 'vacuous: the schedules did not produce different wire orders'
    return dict(acc=acc, level=LEVEL, harness_error=he,
                coverage=dict(
                    rule='state = schedule prefix; transition = one scheduling step (a thread runs from one scheduling point to the next); every complete '
                         'schedule within the preemption bound is executed on the real client; non-trivial = thread configurations',
                    bounds='configurations %r; preemption bound %d (2 for configurations with more than 4 transactions); scheduling points: connect, send/write, recv/read, lock acquire/release'
                           % ([('%s%s' % (k, '+bc' if b else ''), s) for k, s, b in CONFIGS[tier]], bound),
                    distinct_wire_orders=acc.count('wire_orders')),
                assumptions=['preemption only at the named operations (transport, lock), not between arbitrary bytecodes; CPython has no race detector to cross-check',
                             'the RLock of the transaction manager is replaced from the harness by an instrumented re-entrant lock with the same semantics'])


def replay(w):
    acc = Acc()
    name = w['config']
    kind, shape, bc, fault = parse_name(name)
    s = sched.Sched(w['schedule'], 3000)
    if '+debuglog' in name:
        from harness.repo import DebugLogging
        with DebugLogging():
            h = Harness(s, kind, shape, bc, fault)
            s.run()
            h.close()
    else:
        h = Harness(s, kind, shape, bc, fault)
        s.run()
        h.close()
    judge(acc, s, h, name, 9)
    return bool(acc.violations), '\n'.join('%s: %s' % (v['sig'], v['msg']) for v in acc.violations) + '\nlog: %r' % (h.log,)
