"""C18 -- datastore blocks and contexts address exactly their cells.

Explicit-state search (E1) over operation histories on the REAL block / context
objects in lock-step with a dictionary model:
  blocks    validate / getValues / setValues / reset / iterate with every
            (address, count) around every boundary,
  slave ctx the same through both zero-mode settings and every function code,
  server ctx set / get / del / contains / iterate / slaves() with boundary ids.
State = everything the object holds (vars), transitions = real method calls.
"""
import copy
import itertools

from mc.acc import Acc
from mc import par, states
from harness import repo  # noqa: F401
from harness.framers import _freeze

from pymodbus.datastore import (ModbusSequentialDataBlock, ModbusSparseDataBlock,
                                ModbusSlaveContext, ModbusServerContext)
from pymodbus.exceptions import NoSuchSlaveException

ID = 'C18'
LEVEL = 'model_checking'
FCS = {1: 'c', 5: 'c', 15: 'c', 2: 'd', 4: 'i', 3: 'h', 6: 'h', 16: 'h', 22: 'h', 23: 'h'}


# ---------------------------------------------------------------- blocks
def block_configs(tier):
    out = []
    for start in (0, 1, 5, 65533):
        for n in (1, 2, 3, 4):
            if start + n <= 65536:
                out.append(('seq', start, tuple(100 + i for i in range(n))))
    # tables that start out as booleans (how coil tables are usually declared) hold whatever is written to them
    out.append(('seq', 0, (False, True, False)))
    out.append(('seq', 5, (True, False)))
    keys = [0, 1, 2, 3, 5]
    for r in range(1, len(keys) + 1):
        for sub in itertools.combinations(keys, r):
            out.append(('sparse', None, tuple((k, 100 + k) for k in sub)))
    # address maps listed in an order that is not ascending (what is 'first' is not what is lowest)
    out.append(('sparse', None, ((5, 105), (0, 100), (1, 101), (2, 102))))
    out.append(('sparse', None, ((3, 103), (2, 102), (1, 101))))
    out.append(('sparse', None, ((10, 110), (11, 111), (1, 101), (2, 102), (3, 103))))
    out.append(('sparse', None, ((65535, 7),)))
    out.append(('sparse', None, ((65534, 7), (65535, 8))))
    out.append(('sparse-list', None, (100, 101, 102)))
    return out


def make_block(cfg, twins=1):
    """-> (block, model) or, with twins=2, (block, twin, model): both built from the one container the caller holds,
    which the caller goes on using for its own purposes afterwards (a block owns its cells)"""
    kind, start, vals = cfg
    if kind == 'seq':
        tpl = list(vals)
        out = [ModbusSequentialDataBlock(start, tpl) for _ in range(twins)]
        model = dict((start + i, v) for i, v in enumerate(vals))
    elif kind == 'sparse-list':
        tpl = list(vals)
        out = [ModbusSparseDataBlock(tpl) for _ in range(twins)]
        model = dict(enumerate(vals))
    else:
        tpl = dict(vals)
        out = [ModbusSparseDataBlock(tpl) for _ in range(twins)]
        model = dict(vals)
    if isinstance(tpl, list):
        tpl[0] = 0xEEEE
        tpl.append(0xEEEE)
    else:
        tpl[min(tpl)] = 0xEEEE
        tpl[max(tpl) + 1] = 0xEEEE
    return tuple(out) + (model,)


def bkey(b):
    return tuple(sorted((k, _freeze(v)) for k, v in vars(b).items()))


def block_name(cfg, model0):
    name = '%s/%s/%s' % (cfg[0], cfg[1], ','.join(str(k) for k in sorted(model0)))
    if cfg[0] == 'sparse':
        order = [k for k, _ in cfg[2]]
        if order != sorted(order):
            name += '/listed-' + '.'.join(map(str, order))
    return name


def explore_block(acc, cfg, depth, coarse=False):
    blk, twin, model0 = make_block(cfg, twins=2)
    lo, hi = min(model0), max(model0)
    n = len(model0)
    addrs = [a for a in range(lo - 2, hi + 3) if 0 <= a <= 65537]
    counts = list(range(1, n + 3))
    cname = 'sequential' if cfg[0] == 'seq' else 'sparse'
    cfgname = block_name(cfg, model0)
    if coarse:
        # the block carries something that differs with every call (states did not merge): key = what the public
        # interface shows (cells, start address, default value)
        def bkey(b):    # noqa: F811
            try:
                cells = tuple(sorted(list(b))) if not isinstance(b.values, dict) else tuple(sorted(b.values.items()))
            except Exception:   # noqa
                cells = repr(getattr(b, 'values', None))
            return (cells, getattr(b, 'address', None), getattr(b, 'default_value', None))
    else:
        bkey = globals()['bkey']
    reps = {}
    k0 = (bkey(blk), tuple(sorted(model0.items())))
    reps[k0] = blk
    # the twin is never operated on: it must stay as built whatever happens to the others
    twin_key = bkey(twin)

    def bclass(a, c):
        if a < lo:
            return 'below-start'
        if a + c - 1 > hi:
            return 'past-end'
        return 'inside'

    def events(s):
        for a in addrs:
            for c in counts:
                yield ('v', a, c)
        model = dict(s[1])
        for a in addrs:
            for c in counts:
                if all((a + i) in model for i in range(c)):
                    yield ('g', a, c)
                    for gen in (1, 2):
                        yield ('s', a, tuple(gen * 1000 + a + i for i in range(c)))
                    if c == 1:
                        yield ('s1', a, 3000 + a)                 # scalar form: setValues(address, value)
                        yield ('s1', a, 0)                        # ... with a value that is false in a boolean test
                    if cfg[0].startswith('sparse') and c == 2:
                        yield ('sd', a, (4000 + a, 4001 + a))      # sparse blocks also take {address: value}
        yield ('r',)
        if cfg[0] == 'seq':
            # the public re-initialiser: `count` cells holding `value`, from address 0 (what default() documents)
            yield ('d', 1, 7001)
            yield ('d', n + 1, 7002)
        yield ('i',)

    def step(s, ev):
        b = copy.deepcopy(reps[s])
        model = dict(s[1])
        obs = None
        try:
            if ev[0] == 'v':
                obs = ('v', bool(b.validate(ev[1], ev[2])))
            elif ev[0] == 'g':
                r = b.getValues(ev[1], ev[2])
                obs = ('g', list(r))
                if isinstance(r, list):
                    r[:] = [0xEEEE] * (len(r) + 1)          # the caller does what it likes with the list it got back
            elif ev[0] == 's':
                vals = list(ev[2])
                b.setValues(ev[1], vals)
                vals[:] = [0xEEEE] * (len(vals) + 1)        # ... and with the list it passed in
                for i, v in enumerate(ev[2]):
                    model[ev[1] + i] = v
                obs = ('s',)
            elif ev[0] == 's1':
                b.setValues(ev[1], ev[2])
                model[ev[1]] = ev[2]
                obs = ('s',)
            elif ev[0] == 'sd':
                b.setValues(ev[1], dict((ev[1] + i, v) for i, v in enumerate(ev[2])))
                for i, v in enumerate(ev[2]):
                    model[ev[1] + i] = v
                obs = ('s',)
            elif ev[0] == 'd':
                b.default(ev[1], ev[2])
                model = dict((i, ev[2]) for i in range(ev[1]))
                obs = ('d',)
            elif ev[0] == 'r':
                b.reset()
                for k in model:
                    model[k] = b.default_value
                obs = ('r',)
            else:
                obs = ('i', sorted(list(b)))
        except Exception as e:   # noqa
            obs = ('raise', type(e).__name__, repr(e)[:80])
        ns = (bkey(b), tuple(sorted(model.items())))
        if ns not in reps:
            reps[ns] = b
        return ns, obs

    def on_edge(s, ev, nxt, obs, path):
        model = dict(s[1])
        w = dict(block=cfgname, history=[list(e) for e in path(s)] + [list(ev)])
        op = {'v': 'validate', 'g': 'getValues', 's': 'setValues', 's1': 'setValues-scalar', 'sd': 'setValues-dict', 'r': 'reset', 'i': 'iterate', 'd': 'default'}[ev[0]]

        def bad(what, msg, bc='n/a'):
            acc.violation('C18/%s/%s/%s/%s' % (cname, op, what, bc), w, msg, cfgname)
        if obs[0] == 'raise':
            bad('raise:' + obs[1], obs[2], bclass(ev[1], ev[2]) if ev[0] in 'vg' else 'n/a')
            return
        if bkey(twin) != twin_key:
            bad('other-object-affected', 'an untouched block of the same configuration changed')
        if ev[0] == 'v':
            want = all((ev[1] + i) in model for i in range(ev[2]))
            if obs[1] != want:
                bad('accepts-outside' if obs[1] else 'rejects-inside',
                    'validate(%d, %d) = %s, cells populated: %s' % (ev[1], ev[2], obs[1], want), bclass(ev[1], ev[2]))
        elif ev[0] == 'g':
            want = [model[ev[1] + i] for i in range(ev[2])]
            if obs[1] != want:
                bad('wrong-values', 'getValues(%d, %d) = %r, expected %r' % (ev[1], ev[2], obs[1], want), bclass(ev[1], ev[2]))
        elif ev[0] == 'i':
            if obs[1] != sorted(model.items()):
                bad('wrong-items', 'list(block) = %r, expected %r' % (obs[1][:6], sorted(model.items())[:6]))
        if ev[0] in ('s', 's1', 'sd', 'r', 'd'):
            # the block must now hold exactly the model: same extent, same contents
            b = reps[nxt]
            m2 = dict(nxt[1])
            try:
                got = dict(list(b))
            except Exception as e:   # noqa
                bad('block-unusable', 'iterating the block after %s raised %r' % (op, e))
                return
            if set(got) != set(m2):
                bad('extent-changed', 'populated addresses now %r, expected %r' % (sorted(got)[:8], sorted(m2)[:8]))
            elif got != m2:
                bad('wrong-cells', 'cells %r, expected %r' % (sorted(got.items())[:6], sorted(m2.items())[:6]))

    st, _ = states.bfs_snapshot([k0], events, step, on_edge=on_edge, max_depth=depth, max_states=None if coarse else 6000)
    if not coarse and st.states >= 6000:
        acc.cap('state-merging-defeated:' + cfgname)
        return explore_block(acc, cfg, depth, coarse=True)
    acc.inc('states', st.states)
    acc.inc('transitions', st.transitions)
    acc.add('nontrivial', cfgname)
    if not st.closed:
        acc.inc('depth_bounded_searches')
    else:
        acc.inc('closed_searches')
    if len(acc.samples) < 1:
        acc.sample(dict(block=cfgname, states=st.states, transitions=st.transitions, depth=depth))


def explore_sparse_wide(acc):
    """sparse blocks over longer runs of addresses holding pairwise different values: every (address, count <= 12) window
    read, written and read again (order of the values is part of the answer)"""
    for keys in (list(range(3, 41)), list(range(0, 20)) + list(range(24, 40)), [k for k in range(0, 64) if k % 7]):
        cfgname = 'sparse/wide/%d-%d/%d' % (keys[0], keys[-1], len(keys))
        for form in ('dict', 'dict-descending'):
            order = keys if form == 'dict' else list(reversed(keys))
            for a in range(max(0, keys[0] - 1), keys[-1] + 2):
                for c in range(1, 13):
                    model = dict((k, 5000 + 3 * k) for k in keys)
                    blk = ModbusSparseDataBlock(dict((k, model[k]) for k in order))
                    inside = all((a + i) in model for i in range(c))
                    w = dict(block=cfgname + ('' if form == 'dict' else '/descending'), address=a, count=c)
                    acc.inc('transitions', 3)
                    try:
                        v = bool(blk.validate(a, c))
                    except Exception as e:   # noqa
                        acc.violation('C18/sparse/validate/raise:%s/wide' % type(e).__name__, w, repr(e)[:80], cfgname)
                        continue
                    if v != inside:
                        acc.violation('C18/sparse/validate/%s/wide' % ('accepts-outside' if v else 'rejects-inside'), w, 'validate(%d, %d) = %s' % (a, c, v), cfgname)
                    if not inside:
                        continue
                    try:
                        got = list(blk.getValues(a, c))
                        if got != [model[a + i] for i in range(c)]:
                            acc.violation('C18/sparse/getValues/wrong-values/wide', w, 'getValues(%d, %d) = %r' % (a, c, got[:6]), cfgname)
                        new = [9000 + i for i in range(c)]
                        blk.setValues(a, list(new))
                        for i, x in enumerate(new):
                            model[a + i] = x
                        if dict(list(blk)) != model:
                            acc.violation('C18/sparse/setValues/wrong-cells/wide', w, 'cells after setValues(%d, %r...) differ from the model' % (a, new[:3]), cfgname)
                        got = list(blk.getValues(a, c))
                        if got != new:
                            acc.violation('C18/sparse/getValues/wrong-values/wide', w, 'after the write getValues(%d, %d) = %r' % (a, c, got[:6]), cfgname)
                    except Exception as e:   # noqa
                        acc.violation('C18/sparse/getValues/raise:%s/wide' % type(e).__name__, w, repr(e)[:80], cfgname)
        acc.add('nontrivial', cfgname)


# ---------------------------------------------------------------- slave context
def explore_slave(acc, zero_mode, shared, global_default=False, explicit=True, switched=False):
    """global_default: the process-wide Defaults.ZeroMode while the context is built; explicit: zero_mode is passed to the
    constructor (and wins), otherwise the context takes the process-wide default (zero_mode is then that default);
    switched: the context is built with the opposite setting, serves every function code once, and then has its public
    zero_mode attribute set to `zero_mode` (an application reconfiguring a live context)"""
    from pymodbus.constants import Defaults

    def blocks():
        b = [ModbusSequentialDataBlock(s, [t * 10 + i for i in range(4)]) for t, s in ((1, 1), (2, 2), (3, 1), (4, 3))]
        if shared:
            b[1] = b[0]
            b[3] = b[2]
        return b
    cfgname = 'slave/zero=%s/shared=%s' % (zero_mode, shared)
    if global_default or not explicit:
        cfgname += '/default=%s/%s' % (global_default, 'explicit' if explicit else 'implicit')
    if switched:
        cfgname += '/switched'
    off = 0 if zero_mode else 1
    starts = {'d': 1, 'c': 2 if not shared else 1, 'h': 1, 'i': 3 if not shared else 1}
    tabval = {'d': 1, 'c': 2 if not shared else 1, 'h': 3, 'i': 4 if not shared else 3}

    def fresh():
        di, co, hr, ir = blocks()
        saved = Defaults.ZeroMode
        Defaults.ZeroMode = global_default
        try:
            if switched:
                ctx = ModbusSlaveContext(di=di, co=co, hr=hr, ir=ir, zero_mode=not zero_mode)
                for fy in FCS:
                    ctx.validate(fy, 2, 1)
                    ctx.getValues(fy, 2, 1)
                ctx.zero_mode = zero_mode
            elif explicit:
                ctx = ModbusSlaveContext(di=di, co=co, hr=hr, ir=ir, zero_mode=zero_mode)
            else:
                ctx = ModbusSlaveContext(di=di, co=co, hr=hr, ir=ir)
            # another unit's context in the same process, built afterwards, with tables of its own elsewhere
            nb = [ModbusSequentialDataBlock(40 + t, [7000 + t] * 2) for t in range(4)]
            fresh.neighbour = ModbusSlaveContext(di=nb[0], co=nb[1], hr=nb[2], ir=nb[3], zero_mode=not zero_mode)
        finally:
            Defaults.ZeroMode = saved
        model = {}
        for t in 'dchi':
            model[t] = dict((starts[t] - off + i, tabval[t] * 10 + i) for i in range(4))
        if shared:
            model['c'] = model['d']
            model['i'] = model['h']
        return ctx, model
    for fx in FCS:
        for a in range(-1, 8):
            for c in range(1, 6):
                ctx, model = fresh()
                t = FCS[fx]
                inside = all((a + i) in model[t] for i in range(c))
                w = dict(ctx=cfgname, fx=fx, address=a, count=c)
                acc.inc('transitions', 1)
                try:
                    v = bool(ctx.validate(fx, a, c))
                except Exception as e:   # noqa
                    acc.violation('C18/slave-context/validate/raise:%s/zero=%s' % (type(e).__name__, zero_mode), w, repr(e)[:80], cfgname)
                    continue
                if v != inside:
                    acc.violation('C18/slave-context/validate/%s/zero=%s' % ('accepts-outside' if v else 'rejects-inside', zero_mode), w,
                                  'validate(%d, %d, %d) = %s' % (fx, a, c, v), cfgname)
                if not inside:
                    continue
                acc.inc('transitions', 3)
                try:
                    got = list(ctx.getValues(fx, a, c))
                except Exception as e:   # noqa
                    got = 'raise:' + type(e).__name__
                if got != [model[t][a + i] for i in range(c)]:
                    acc.violation('C18/slave-context/getValues/wrong-values/zero=%s' % zero_mode, w, 'got %r' % (got,), cfgname)
                new = [900 + i for i in range(c)]
                try:
                    ctx.setValues(fx, a, list(new))
                except Exception as e:   # noqa
                    acc.violation('C18/slave-context/setValues/raise:%s/zero=%s' % (type(e).__name__, zero_mode), w, repr(e)[:80], cfgname)
                    continue
                for i, x in enumerate(new):
                    model[t][a + i] = x
                for fy in FCS:       # visible through every function code of the same table, invisible elsewhere
                    ty = FCS[fy]
                    for b0 in range(0, 6):
                        if (b0) in model[ty]:
                            try:
                                g = ctx.getValues(fy, b0, 1)[0]
                            except Exception as e:   # noqa
                                g = 'raise:' + type(e).__name__
                            if g != model[ty][b0]:
                                acc.violation('C18/slave-context/setValues/wrong-table-or-cell/zero=%s' % zero_mode,
                                              dict(w, read_fx=fy, read_address=b0),
                                              'after setValues(fx=%d, %d, %r): getValues(fx=%d, %d) = %r, expected %r'
                                              % (fx, a, new, fy, b0, g, model[ty][b0]), cfgname)
    # a table replaced while the context is in use (store[...] assignment, or register()): every function code of that
    # table sees the new block from then on, the other tables are untouched
    tname = {'d': 'd', 'c': 'c', 'h': 'h', 'i': 'i'}
    for how in ('store', 'register'):
        for fx in (1, 2, 3, 4, 6, 16, 22):
            if shared:
                continue
            ctx, model = fresh()
            t = FCS[fx]
            for fy in FCS:                       # the context has served every function code before
                try:
                    ctx.validate(fy, 2, 1)
                    ctx.getValues(fy, 2, 1)
                except Exception:   # noqa
                    pass
            nb = ModbusSequentialDataBlock(20, [700 + i for i in range(3)])
            try:
                if how == 'store':
                    ctx.store[t] = nb
                else:
                    ctx.register(fx, t, nb)
            except Exception as e:   # noqa
                acc.violation('C18/slave-context/replace-table/raise:%s/zero=%s' % (type(e).__name__, zero_mode), dict(ctx=cfgname, how=how, fx=fx), repr(e)[:80], cfgname)
                continue
            acc.inc('transitions', 2 * len(FCS))
            for fy in FCS:
                if FCS[fy] != t:
                    continue
                for a, want in ((2, False), (20 - off, True), (22 - off, True), (23 - off, False)):
                    w = dict(ctx=cfgname, how=how, fx=fx, read_fx=fy, address=a)
                    try:
                        v = bool(ctx.validate(fy, a, 1))
                        g = ctx.getValues(fy, a, 1)[0] if v else None
                    except Exception as e:   # noqa
                        v, g = 'raise:' + type(e).__name__, None
                    if v != want or (want and g != 700 + (a + off - 20)):
                        acc.violation('C18/slave-context/replace-table/stale-block/zero=%s' % zero_mode, w,
                                      'after the %s table was replaced via %s: validate(fx=%d, %d) = %r, value %r' % (t, how, fy, a, v, g), cfgname)
    acc.add('nontrivial', cfgname)


def explore_slave_top(acc, zero_mode):
    """tables that end at the last wire address there is (0xFFFF): every window around the top of the address space"""
    off = 0 if zero_mode else 1
    cfgname = 'slave/top/zero=%s' % zero_mode
    for fx in FCS:
        for a in range(0xFFF8, 0x10000):
            for c in range(1, 6):
                blocks = [ModbusSequentialDataBlock(0xFFFC + off, [t * 10 + i for i in range(4)]) for t in (1, 2, 3, 4)]
                ctx = ModbusSlaveContext(di=blocks[0], co=blocks[1], hr=blocks[2], ir=blocks[3], zero_mode=zero_mode)
                t = FCS[fx]
                tv = {'d': 1, 'c': 2, 'h': 3, 'i': 4}[t]
                model = dict((0xFFFC + i, tv * 10 + i) for i in range(4))
                inside = all((a + i) in model for i in range(c))
                w = dict(ctx=cfgname, fx=fx, address=a, count=c)
                acc.inc('transitions', 2)
                try:
                    v = bool(ctx.validate(fx, a, c))
                    got = list(ctx.getValues(fx, a, c)) if (v and inside) else None
                except Exception as e:   # noqa
                    acc.violation('C18/slave-context/validate/raise:%s/zero=%s' % (type(e).__name__, zero_mode), w, repr(e)[:80], cfgname)
                    continue
                if v != inside:
                    acc.violation('C18/slave-context/validate/%s/zero=%s' % ('accepts-outside' if v else 'rejects-inside', zero_mode), w,
                                  'validate(%d, %#x, %d) = %s' % (fx, a, c, v), cfgname)
                elif inside and got != [model[a + i] for i in range(c)]:
                    acc.violation('C18/slave-context/getValues/wrong-values/zero=%s' % zero_mode, w, 'got %r' % (got,), cfgname)
    acc.add('nontrivial', cfgname)


# ---------------------------------------------------------------- server context
IDS = [-1, 0, 1, 2, 247, 248, 255, 256, 257]


class _Ctx(object):
    pass


def explore_server(acc, single, init_ids, depth):
    cfgname = 'server/single=%s/init=%s' % (single, init_ids)
    A = {'ctx': 'A'}

    def build(hist):
        objs = {}
        names = {}

        def tag(i):
            c = _Ctx()      # any object can be registered as a unit context
            names[id(c)] = 'ctx%d' % i
            objs['ctx%d' % i] = c
            return c
        if single:
            first = tag(0)
            sc = ModbusServerContext(slaves=first, single=True)
            model = {'single': 'ctx0'}
        elif init_ids == 'no-arg':
            sc = ModbusServerContext(single=False)          # built without a slaves argument
            model = {}
        else:
            d = dict((i, tag(i)) for i in init_ids)
            sc = ModbusServerContext(slaves=d, single=False)
            model = dict((i, 'ctx%d' % i) for i in init_ids)
        by = ModbusServerContext(single=False)              # a bystander context built the same way: never touched
        obs = None
        for n, ev in enumerate(hist):
            obs = apply(sc, model, names, tag, ev, 100 + n)
        sc._bystander = by
        return sc, model, names, obs

    def apply(sc, model, names, tag, ev, n):
        op = ev[0]
        try:
            if op == 'set':
                c = tag(n)
                sc[ev[1]] = c
                r = ('ok',)
                if single:
                    model['single'] = names[id(c)]
                else:
                    model[ev[1]] = names[id(c)]
            elif op == 'get':
                r = ('ok', names.get(id(sc[ev[1]]), '?'))
            elif op == 'del':
                del sc[ev[1]]
                r = ('ok',)
                model.pop(ev[1], None)
            elif op == 'in':
                r = ('ok', ev[1] in sc)
            elif op == 'iter':
                r = ('ok', sorted((k, names.get(id(v), '?')) for k, v in sc))
            else:
                r = ('ok', sorted(sc.slaves()))
        except NoSuchSlaveException:
            r = ('nosuch',)
        except Exception as e:   # noqa
            r = ('raise', type(e).__name__)
        return r

    def events(objs, hist):
        for i in IDS:
            yield ('set', i)
            yield ('get', i)
            yield ('del', i)
            yield ('in', i)
        yield ('iter',)
        yield ('slaves',)

    def canon(objs):
        sc, model, names, obs = objs
        # every attribute the context holds (contexts replaced by their names), so that hidden
        # state such as a lookup cache makes states distinct instead of being merged away
        def nm(v):
            if id(v) in names:
                return names[id(v)]
            if isinstance(v, dict):
                return tuple(sorted((repr(k), nm(x)) for k, x in v.items()))
            if isinstance(v, (list, tuple)):
                return tuple(nm(x) for x in v)
            return repr(v)
        return tuple(sorted((k, nm(v)) for k, v in vars(sc).items() if k != '_bystander'))

    def check(objs, hist):
        if not hist:
            return
        sc, model_after, names, obs = objs
        ev = hist[-1]
        # model before the last event
        _, model, _, _ = build(hist[:-1])
        w = dict(ctx=cfgname, history=[list(e) for e in hist])
        op = ev[0]

        def bad(what, msg):
            acc.violation('C18/server-context/%s/%s/%s' % (op, what, 'single' if single else 'multi'), w, msg, cfgname)
        if op == 'get':
            if single:
                if obs != ('ok', model['single']):
                    bad('not-routed-to-only-context', 'context[%d] -> %r' % (ev[1], obs))
            elif ev[1] in model:
                if obs != ('ok', model[ev[1]]):
                    bad('wrong-context', 'context[%d] -> %r, registered %s' % (ev[1], obs, model[ev[1]]))
            elif obs != ('nosuch',):
                bad('no-nosuchslave', 'context[%d] for an unregistered id -> %r' % (ev[1], obs))
        elif op == 'set':
            if single:
                if obs != ('ok',):
                    bad('refused', 'setting the single context raised %r' % (obs,))
            elif 0 <= ev[1] <= 247:
                if obs != ('ok',):
                    bad('refused-valid-id', 'context[%d] = ... -> %r' % (ev[1], obs))
            elif obs != ('nosuch',):
                bad('accepted-invalid-id', 'context[%d] = ... -> %r' % (ev[1], obs))
        elif op == 'in':
            want = True if single else (ev[1] in model)
            if obs != ('ok', want):
                bad('wrong-membership', '%d in context -> %r, expected %s' % (ev[1], obs, want))
        elif op == 'del':
            if not single and ev[1] in model and obs != ('ok',):
                bad('refused', 'del context[%d] -> %r' % (ev[1], obs))
            if single and obs == ('ok',):
                bad('single-deleted', 'del context[%d] succeeded in single mode' % ev[1])
        elif op in ('iter', 'slaves') and not single:
            want = sorted(model.items()) if op == 'iter' else sorted(model)
            if obs != ('ok', want):
                bad('wrong-listing', '%s -> %r, expected %r' % (op, obs, want))
        by = getattr(sc, '_bystander', None)
        if by is not None and (by.slaves() or list(by)):
            bad('other-object-affected', 'an untouched server context now hosts %r' % (by.slaves(),))
        # registered map must be the model
        if not single:
            reg = dict((k, names.get(id(v), '?')) for k, v in (sc._slaves.items() if hasattr(sc, '_slaves') else list(sc)))
            if reg != model_after:
                bad('map-differs', 'registered %r, expected %r' % (sorted(reg.items()), sorted(model_after.items())))

    st = states.bfs_replay(build, events, canon, check=check, max_depth=depth, max_states=20000)
    if st.states >= 20000:
        # the context carries something that differs with every call: canonical form = the registered map only
        acc.cap('state-merging-defeated:' + cfgname)

        def coarse(objs):
            sc, model, names, obs = objs
            try:
                return (sc.single, tuple(sorted((k, names.get(id(v), '?')) for k, v in list(sc))))
            except Exception:   # noqa
                return repr(sorted(model.items()))
        st = states.bfs_replay(build, events, coarse, check=check, max_depth=depth)
    acc.inc('states', st.states)
    acc.inc('transitions', st.transitions)
    acc.add('nontrivial', cfgname)


def explore_factories(acc):
    """the full-address-space factories and default(): boundary addresses of a 65536-cell block"""
    for kind, cls in (('sequential', ModbusSequentialDataBlock), ('sparse', ModbusSparseDataBlock)):
        b = cls.create()
        name = kind + '/create'
        for a, c, want in ((0, 1, True), (65535, 1, True), (65535, 2, False), (65534, 2, True), (65536, 1, False), (0, 65536, True), (1, 65536, False)):
            acc.inc('transitions')
            try:
                got = bool(b.validate(a, c))
            except Exception as e:   # noqa
                got = 'raise:' + type(e).__name__
            if got != want:
                acc.violation('C18/%s/validate/%s/create' % (kind, 'accepts-outside' if got is True else 'rejects-inside' if got is False else got),
                              dict(block=name, history=[['v', a, c]]), 'create(): validate(%d, %d) = %r' % (a, c, got), name)
        b.setValues(65534, [7, 8])
        acc.inc('transitions', 2)
        if list(b.getValues(65533, 3)) != [0, 7, 8] or list(b.getValues(0, 2)) != [0, 0]:
            acc.violation('C18/%s/setValues/wrong-cells/create' % kind, dict(block=name, history=[['s', 65534, [7, 8]]]),
                          'create(): cells 65533..65535 = %r' % (list(b.getValues(65533, 3)),), name)
    d = ModbusSequentialDataBlock(5, [1, 2, 3])
    d.default(4, 9)
    acc.inc('transitions')
    if list(d) != [(0, 9), (1, 9), (2, 9), (3, 9)]:
        acc.violation('C18/sequential/default/wrong-items/n/a', dict(block='sequential/default', history=[['default', 4, 9]]),
                      'default(4, 9) gives %r' % (list(d),), 'sequential/default')
    acc.add('nontrivial', 'factories')


def shard(args):
    acc = Acc()
    what = args[0]
    if what == 'factories':
        explore_factories(acc)
        return acc
    if what == 'sparse-wide':
        explore_sparse_wide(acc)
        return acc
    if what == 'block':
        explore_block(acc, args[1], args[2])
    elif what == 'slave-top':
        explore_slave_top(acc, args[1])
    elif what == 'slave':
        explore_slave(acc, *args[1:])
    else:
        explore_server(acc, args[1], args[2], args[3])
    return acc


def run(tier, seed):
    depth = 3 if tier == 'quick' else 5
    shards = [('block', c, depth) for c in block_configs(tier)]
    shards += [('slave', z, s) for z in (False, True) for s in (False, True)]
    # ... built while the process-wide default Defaults.ZeroMode is on (an explicit argument wins), and without the
    # argument (the context takes the default)
    shards += [('slave', z, False, True, True) for z in (False, True)] + [('slave', g, False, g, False) for g in (False, True)]
    shards += [('slave', z, False, False, True, True) for z in (False, True)]
    shards += [('factories',), ('sparse-wide',), ('slave-top', False), ('slave-top', True)]
    sdepth = 3 if tier == 'quick' else 4
    shards += [('server', True, (), sdepth)] + [('server', False, ids, sdepth) for ids in ((), 'no-arg', (1,), (1, 2), (0, 247))]
    acc = par.run_shards(shard, shards)
    acc.n['traces_validated_against_impl'] = acc.n.get('transitions', 0)
    acc.n['evaluations'] = acc.n.get('transitions', 0)
    return dict(acc=acc, level=LEVEL,
                coverage=dict(
                    rule='state = all attributes of the real block/context + dict model; transition = one real method call; '
                         'non-trivial = distinct object configurations explored',
                    bounds='%d block configurations (sequential start {0,1,5,65533} x length 1..4; sparse over every non-empty subset of '
                           '{0,1,2,3,5}, {65535}, {65534,65535}, list-initialised), every (address, count) in [start-2, end+2] x [1, n+2], '
                           'histories to depth %d; slave context: 10 function codes x addresses -1..7 x counts 1..5 x zero-mode x shared tables; '
                           'server context: ids %r, histories to depth %d, single and 4 multi-unit initial maps'
                           % (len(block_configs(tier)), depth, IDS, sdepth)),
                assumptions=['dict model of cells; writes outside the accepted range are not issued (the property speaks of accepted ranges)',
                             'validate with count 0 is outside the property (count >= 1)'])


def replay(w):
    acc = Acc()
    if 'block' in w and 'sparse/wide' in w['block']:
        explore_sparse_wide(acc)
        vs = [v for v in acc.violations if v['witness'] == w]
        return bool(vs), '\n'.join(v['msg'] for v in vs) or 'no violation'
    if 'block' in w and ('create' in w['block'] or 'default' in w['block']):
        explore_factories(acc)
        vs = [v for v in acc.violations if v['witness'] == w]
        return bool(vs), '\n'.join(v['msg'] for v in vs) or 'no violation'
    if 'block' in w:
        for c in block_configs('thorough'):
            _, m0 = make_block(c)
            name = block_name(c, m0)
            if name == w['block']:
                explore_block(acc, c, len(w['history']))
        vs = [v for v in acc.violations if v['witness'] == w]
    elif w['ctx'].startswith('slave/top'):
        explore_slave_top(acc, 'zero=True' in w['ctx'])
        vs = [v for v in acc.violations if v['witness'] == w]
    elif w['ctx'].startswith('slave'):
        for z in (False, True):
            for s in (False, True):
                explore_slave(acc, z, s)
            explore_slave(acc, z, False, True, True)
            explore_slave(acc, z, False, z, False)
            explore_slave(acc, z, False, False, True, True)
        vs = [v for v in acc.violations if v['witness'] == w]
    else:
        single = 'single=True' in w['ctx']
        for ids in ((), 'no-arg', (1,), (1, 2), (0, 247)):
            if single or ('init=%s' % (ids,)) in w['ctx']:
                explore_server(acc, single, ids, len(w['history']))
                break
        vs = [v for v in acc.violations if v['witness'] == w]
    return bool(vs), '\n'.join('%s: %s' % (v['sig'], v['msg']) for v in vs) or 'no violation'
