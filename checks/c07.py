"""C07 -- corrupted frames are never delivered as messages.

Fault enumeration: for every catalogued message class on the RTU, ASCII, binary and
TCP framers (both decoder directions) EVERY single-bit flip, every pair of bit flips
(short frames), every byte substitution (boundary values; all 255 in thorough),
every single deletion, every single insertion, every truncation of the valid frame --
alone, preceded by a valid frame and followed by a valid frame, handed over whole
and one byte per call.
Oracle (soundness of delivery, independent of pymodbus' checksum code): the PDU
bytes a framer hands to its decoder, with the unit id it reports, must occur in the
input as an integrity-valid frame according to ref/adu.py (bitwise CRC, LRC + hex,
MBAP length).  For write requests the callback executes against a real datastore,
which may change only if a justified write was delivered.
"""
import itertools

from mc.acc import Acc
from mc import par
from ref import adu, pdu
from harness import framers, catalog, gen, stores

ID = 'C07'
LEVEL = 'fault_enumeration'
UNIT = 0x11
HDR = {'tcp': 8, 'rtu': 2, 'ascii': 5, 'binary': 3}
TRL = {'tcp': 0, 'rtu': 2, 'ascii': 4, 'binary': 3}


class Rec(object):
    """decoder proxy recording the PDU bytes the framer asks it to decode"""

    def __init__(self, real):
        self.real = real
        self.seen = []

    def decode(self, data):
        self.seen.append(bytes(data))
        return self.real.decode(data)

    def lookupPduClass(self, fc):
        return self.real.lookupPduClass(fc)


def faults(frame, tier, double):
    n = len(frame)
    for i in range(n):
        for b in range(8):
            yield ('flip1', i, frame[:i] + bytes([frame[i] ^ (1 << b)]) + frame[i + 1:])
    if double:
        bits = [(i, b) for i in range(n) for b in range(8)]
        for (i, b), (j, c) in itertools.combinations(bits, 2):
            f = bytearray(frame)
            f[i] ^= 1 << b
            f[j] ^= 1 << c
            yield ('flip2', i, bytes(f))
    subs = gen.B8 if tier == 'quick' else range(256)
    for i in range(n):
        for v in subs:
            if v != frame[i]:
                yield ('subst', i, frame[:i] + bytes([v]) + frame[i + 1:])
    for i in range(n):
        yield ('delete', i, frame[:i] + frame[i + 1:])
    for i in range(n + 1):
        for v in gen.B8:
            yield ('insert', i, frame[:i] + bytes([v]) + frame[i:])
    for k in range(1, n):
        yield ('truncate', k, frame[:k])


def posclass(framing, i, n):
    if i < HDR[framing]:
        return 'header'
    if i >= n - TRL[framing]:
        return 'trailer'
    return 'pdu'


def justified_set(framing, stream, side='req'):
    out = set()
    for s, e, p in adu.valid_frames_in(framing, stream):
        if framing == 'tcp' and p['pdu'][:1] and (p['pdu'][0] & 0x7F) in pdu.SUPPORTED:
            # TCP has no checksum: the integrity check is an MBAP length CONSISTENT WITH THE PDU, i.e. the
            # bytes the length field delimits must be exactly one well-formed PDU of that function code
            try:
                pdu.decode(side, p['pdu'])
            except Exception:   # noqa
                continue
        out.add((p['unit'], bytes(p['pdu'])))
        if 'pdu_raw' in p:
            out.add((p['unit'], bytes(p['pdu_raw'])))
    return out


def run_case(acc, framing, side, stream, chunks, cls, kind, pc, wit_base, lay=None, unit=UNIT):
    rec = Rec(framers.decoder(side))
    fr = framers.FRAMERS[framing](rec, client=None)
    delivered = []
    ctx = before = None
    if lay is not None:
        ctx = lay.build(lay.initial_state())
        before = lay.dump(ctx)

    def cb(m):
        delivered.append((m.unit_id, rec.seen[-1] if rec.seen else b'', type(m).__name__))
        if ctx is not None:
            try:
                m.execute(ctx)
            except Exception:   # noqa
                pass
    for ch in chunks:
        try:
            fr.processIncomingPacket(ch, cb, [unit], single=False)
        except Exception:   # noqa
            pass         # an escaping exception is C06/C12 matter; a real caller calls again
    acc.inc('evaluations')
    if not delivered and ctx is None:
        return
    just = justified_set(framing, stream, side)
    for unit, raw, cname in delivered:
        if (unit, raw) not in just:
            acc.violation('C07/%s/%s/%s/%s' % (framing, kind, pc, cname), dict(wit_base, stream=stream.hex(), chunks=[len(c) for c in chunks]),
                          'delivered %s (unit %r, pdu %s) although no integrity-valid frame for it is in the input' % (cname, unit, raw.hex()),
                          '%s/%s/%s' % (framing, side, cls))
            acc.inc('unjustified')
        else:
            acc.inc('justified_deliveries')
    if ctx is not None and lay.dump(ctx) != before:
        if not any((u, r) in just for u, r, _ in delivered):
            acc.violation('C07/%s/%s/%s/store-changed' % (framing, kind, pc), dict(wit_base, stream=stream.hex(), chunks=[len(c) for c in chunks]),
                          'datastore changed although no justified write was delivered', '%s/%s/%s' % (framing, side, cls))


def explore(acc, framing, side, m, tier, lay=None):
    raw = pdu.encode(m)
    frame = adu.build(framing, UNIT, raw, tid=0x0102)
    other = adu.build(framing, UNIT, pdu.encode(catalog.BY_NAME['req06' if side == 'req' else 'rsp06']), tid=0x0304)
    cls = catalog.name(m)
    n = len(frame)
    double = n <= (10 if tier == 'quick' else 13)
    if n > (24 if tier == 'quick' else 48):
        return
    seen = set()
    for kind, i, bad in faults(frame, tier, double):
        if bad in seen:
            continue
        seen.add(bad)
        pc = posclass(framing, i, n)
        wb = dict(framing=framing, side=side, cls=cls, fault=kind, at=i)
        run_case(acc, framing, side, bad, [bad], cls, kind, pc, wb, lay)
        if kind != 'flip2':
            run_case(acc, framing, side, bad, [bad[k:k + 1] for k in range(len(bad))], cls, kind, pc, wb, lay)
            run_case(acc, framing, side, other + bad, [other + bad], cls, kind + '+preceded', pc, wb, lay)
            run_case(acc, framing, side, bad + other, [bad + other], cls, kind + '+followed', pc, wb, lay)
            if tier == 'thorough':
                s = other + bad + other
                run_case(acc, framing, side, s, [s[k:k + 1] for k in range(len(s))], cls, kind + '+between', pc, wb, lay)
    # sanity (vacuity guard): the intact frame, and the intact neighbour of a wrecked frame, are delivered
    rec = Rec(framers.decoder(side))
    fr = framers.FRAMERS[framing](rec, client=None)
    got = []
    try:
        fr.processIncomingPacket(frame, got.append, [UNIT], single=False)
    except Exception:   # noqa
        pass
    if len(got) == 1:
        acc.inc('intact_delivered')
    else:
        acc.add('intact_not_delivered', '%s/%s/%s' % (framing, side, cls))
    acc.add('nontrivial', (framing, side, cls))
    acc.inc('faulty_frames', len(seen))


LOW_UNITS = (0x00, 0x05, 0x0A)


def explore_header(acc, framing, side, m, unit, lay=None):
    """the same message addressed to a unit whose id has a leading zero digit / is a single small byte: EVERY substitution,
    deletion and insertion (all 255 values) in the frame's header, alone and followed by a valid frame"""
    raw = pdu.encode(m)
    frame = adu.build(framing, unit, raw, tid=0x0102)
    other = adu.build(framing, unit, pdu.encode(catalog.BY_NAME['req06' if side == 'req' else 'rsp06']), tid=0x0304)
    cls = catalog.name(m)
    seen = set()
    for i in range(HDR[framing]):
        cases = [('subst', frame[:i] + bytes([v]) + frame[i + 1:]) for v in range(256) if v != frame[i]]
        cases += [('insert', frame[:i] + bytes([v]) + frame[i:]) for v in range(256)]
        cases += [('delete', frame[:i] + frame[i + 1:])]
        for kind, bad in cases:
            if bad in seen:
                continue
            seen.add(bad)
            wb = dict(framing=framing, side=side, cls=cls, fault=kind, at=i, unit=unit)
            run_case(acc, framing, side, bad, [bad], cls, kind + '/unit%02x' % unit, 'header', wb, lay, unit)
            run_case(acc, framing, side, bad + other, [bad + other], cls, kind + '+followed/unit%02x' % unit, 'header', wb, lay, unit)
    acc.inc('faulty_frames', len(seen))
    acc.add('nontrivial', (framing, side, cls, unit))


def shard(args):
    framing, side, names, tier = args
    acc = Acc()
    if side == 'low-units':
        lay = stores.Layout(('seq', 0, 0x200), True, False)
        for unit in LOW_UNITS:
            explore_header(acc, framing, 'req', catalog.BY_NAME[names[0]], unit, lay)
            explore_header(acc, framing, 'rsp', catalog.BY_NAME[names[1]], unit, None)
        return acc
    lay = stores.Layout(('seq', 0, 0x200), True, False)
    for nme in names:
        m = catalog.BY_NAME[nme]
        writes = side == 'req' and m['fc'] in (5, 6, 15, 16, 22, 23)
        explore(acc, framing, side, m, tier, lay if writes else None)
    if not acc.samples and names:
        m = catalog.BY_NAME[names[0]]
        acc.sample(dict(framing=framing, side=side, cls=names[0], valid_frame=adu.build(framing, UNIT, pdu.encode(m), tid=0x0102).hex()))
    return acc


def run(tier, seed):
    shards = []
    for framing in ('rtu', 'ascii', 'binary', 'tcp'):
        for side, ms in (('req', catalog.REQUESTS), ('rsp', catalog.RESPONSES)):
            names = [catalog.name(m) for m in ms]
            for nme in names:
                shards.append((framing, side, [nme], tier))
    for framing in ('rtu', 'ascii', 'binary', 'tcp'):
        shards.append((framing, 'low-units', ['req06', 'rsp03'], tier))
    acc = par.run_shards(shard, shards)
    he = None
    if acc.n.get('justified_deliveries', 0) < 100:
        he = 'vacuous: no delivery was ever observed'
    nd = sorted(acc.sets.get('intact_not_delivered', ()))
    allowed = set()     # classes whose intact frame the framer cannot deliver at all are listed by C03's known findings
    if len(nd) > 8:
        he = 'vacuous: %d intact frames are not delivered at all (a C03 matter), soundness cannot be judged: %s' % (len(nd), nd[:6])
    return dict(acc=acc, level=LEVEL, harness_error=he,
                coverage=dict(
                    rule='one case = one faulty byte stream fed to a fresh real framer; non-trivial = distinct (framer, direction, class) triples; '
                         'justified_deliveries counts deliveries the reference accepts (e.g. the valid neighbour frame)',
                    bounds='frames up to %d bytes of every catalogued class, unit 0x11; faults: every single-bit flip, every double-bit flip (frames <= %d bytes), '
                           'substitution by %s, every deletion, insertion of 16 boundary bytes at every position, every truncation; units 0x00, 0x05, 0x0A: every '
                           'substitution / insertion (all 255 values) / deletion in the header of a write-register request and a read response; contexts: alone whole, alone '
                           'byte-by-byte, preceded / followed by a valid frame%s'
                           % ((24, 10, '16 boundary values', '') if tier == 'quick' else (48, 13, 'all 255 other values', ', between two valid frames byte-by-byte'))),
                assumptions=['ref/adu.py decides integrity (bitwise CRC-16, LRC + hex digits, MBAP length = PDU length + 1)',
                             'TCP has no checksum: a window is integrity-valid when its MBAP length delimits exactly one well-formed PDU (reference decoder)'])


def replay(w):
    acc = Acc()
    stream = bytes.fromhex(w['stream'])
    chunks, pos = [], 0
    for ln in w['chunks']:
        chunks.append(stream[pos:pos + ln])
        pos += ln
    m = catalog.BY_NAME[w['cls']]
    lay = stores.Layout(('seq', 0, 0x200), True, False) if (w['side'] == 'req' and m['fc'] in (5, 6, 15, 16, 22, 23)) else None
    run_case(acc, w['framing'], w['side'], stream, chunks, w['cls'], w['fault'], 'replay', dict(w), lay, w.get('unit', UNIT))
    return bool(acc.violations), '\n'.join('%s: %s' % (v['sig'], v['msg']) for v in acc.violations) or 'no violation'
