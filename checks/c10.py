"""C10 -- requests act only on the addressed unit; broadcast acts on all.

Exhaustive configuration product: unit ids (all 0..255 in thorough) x hosted unit
sets x single/multi x broadcast_enable x ignore_missing_slaves x every framer that
carries a unit id x every front-end x {write register, write coils, read} and
two-request sequences (write to unit a, read from unit b), and writes during which one
hosted unit's datastore raises (a broadcast is still never answered).  Every slave context is
wrapped in a counting proxy, so "applied exactly once" and "other units untouched"
are observed as calls, not only as final values.  Oracle: ref/routing.py.
"""
from mc.acc import Acc
from mc import par
from ref import pdu, routing
from harness import servers, scenario, stores, reset

ID = 'C10'
LEVEL = 'model_checking'
QUICK_UNITS = [0, 1, 2, 3, 9, 246, 247, 248, 254, 255]
HOSTED = [None, (1,), (1, 2), (0, 1), (2, 255), (1, 247)]        # None = single context


class Counting(object):
    """slave context proxy recording which operations reach which unit"""

    def __init__(self, inner, log, unit, fail=False):
        self.inner, self.log, self.unit, self.fail = inner, log, unit, fail
        self.zero_mode = inner.zero_mode

    def validate(self, fx, address, count=1):
        self.log.append((self.unit, 'validate'))
        return self.inner.validate(fx, address, count)

    def getValues(self, fx, address, count=1):
        self.log.append((self.unit, 'get'))
        return self.inner.getValues(fx, address, count)

    def setValues(self, fx, address, values):
        self.log.append((self.unit, 'set'))
        if self.fail:
            raise RuntimeError('datastore of unit %d fails' % self.unit)
        return self.inner.setValues(fx, address, values)


REQS = {
    'W': lambda i: dict(kind='req', fc=6, address=2, value=0x0A00 + i),
    'C': lambda i: dict(kind='req', fc=15, address=1, count=3, byte_count=1, bits=[True, False, True]),
    'R': lambda i: dict(kind='req', fc=3, address=1, count=2),
    'M': lambda i: dict(kind='req', fc=22, address=3, and_mask=0x00FF, or_mask=0x5500),
    'X': lambda i: b'\x41\x00',          # a function code no server implements: answered (01) only where a reply is due at all
    # writes covering a whole table of the layout (8 cells from address 0): one value list reaches every unit of a broadcast
    'F': lambda i: dict(kind='req', fc=16, address=0, count=8, byte_count=16, registers=[0x0F00 + 16 * i + j for j in range(8)]),
    'G': lambda i: dict(kind='req', fc=15, address=0, count=8, byte_count=1, bits=[True, False, False, True, True, False, True, False]),
}


def build(hosted, bc, ign, fail_unit=None):
    reset.control_block()
    log = []
    LAY = scenario.LAY
    if hosted is None:
        st = scenario.unit_state(0)
        real = {0: LAY.build(st)}
        ctx = servers.server_context(Counting(real[0], log, 0, fail_unit == 0), True)
        ref = routing.RefServer(LAY.ref(st), True, bc, ign)
    else:
        real, refs, wrapped = {}, {}, {}
        for u in hosted:
            st = scenario.unit_state(u)
            real[u] = LAY.build(st)
            refs[u] = LAY.ref(st)
            wrapped[u] = Counting(real[u], log, u, fail_unit == u)
        ctx = servers.server_context(wrapped, False)
        ref = routing.RefServer(refs, False, bc, ign)
    return ctx, ref, real, log


def run_fault(acc, front, framing, hosted, bc, ign, fail_unit, unit):
    """a hosted unit's datastore raises while a write is applied: a broadcast is still never answered,
    a directed write is answered with exception 04"""
    ctx, ref, real, log = build(hosted, bc, ign, fail_unit)
    srv = servers.Server(front, framing, ctx, broadcast_enable=bc, ignore_missing_slaves=ign)
    conn = srv.open()
    m = REQS['W'](0)
    writes = conn.run_script([scenario.frame(framing, unit, 0x0101, m)])
    got = scenario.parse_out(framing, writes)
    srv.shutdown()
    acc.inc('transitions')
    acc.inc('evaluations')
    wit = dict(front=front, framing=framing, hosted=list(hosted) if hosted else None, bc=bc, ign=ign, fail_unit=fail_unit, steps=[[unit, 'W']])
    mode = 'single' if hosted is None else 'multi'
    what = None
    if bc and unit == 0:
        if got:
            what = 'reply-on-broadcast-after-fault'
    elif unit == fail_unit or hosted is None:
        want = dict(kind='exc', fc=6, code=4)
        if len(got) != 1 or scenario.match(framing, got[0], unit, 0x0101, want) is not None:
            what = 'no-exception-04-after-fault'
    if srv.escaped:
        what = 'escape:' + type(srv.escaped[0][1]).__name__
    if what:
        acc.violation('C10/%s/%s/%s/bc=%d,ign=%d/%s' % (front, framing, mode, bc, ign, what), wit,
                      '%s: wrote %r' % (what, [w.hex() for w in writes]), '%s/%s' % (front, framing))
    return what


def run_stale_header(acc, front, framing, hosted, a, b):
    """a request for unit a arrives only partly (header complete), the front-end then drops it (idle timeout on the
    synchronous TCP handler, datagram boundary on the UDP servers); the next, complete request goes to unit b"""
    import socket
    ctx, ref, real, log = build(hosted, False, False)
    srv = servers.Server(front, framing, ctx)
    conn = srv.open()
    m1 = REQS['W'](0)
    m2 = dict(kind='req', fc=6, address=4, value=0x0B0B)
    f1 = scenario.frame(framing, a, 0x0301, m1)
    f2 = scenario.frame(framing, b, 0x0302, m2)
    before = scenario.dumps(real)
    if front == 'sync-tcp':
        writes = conn.run_script([f1[:9], socket.timeout('timed out'), f2])
    else:
        conn.run_script([f1[:9]])
        writes = conn.run_script([f2])
    got = scenario.parse_out(framing, writes)
    alts = ref.handle(b, m2)
    after, want = scenario.dumps(real), scenario.ref_dumps(ref)
    srv.shutdown()
    acc.inc('transitions', 2)
    acc.inc('evaluations')
    what = None
    replies = [x for x in alts if x is not None]
    if after != want:
        what = 'wrong-store'
    elif got and (not replies or all(scenario.match(framing, got[0], b, 0x0302, x) is not None for x in replies)):
        what = 'wrong-reply'
    elif not got and None not in alts:
        what = 'no-reply'
    if what:
        acc.violation('C10/%s/%s/multi/after-dropped-partial-frame/%s' % (front, framing, what),
                      dict(front=front, framing=framing, hosted=list(hosted), bc=False, ign=False, stale=[a, b]),
                      'partial request for unit %d dropped, then a request for unit %d: %s (wrote %r)' % (a, b, what, [w.hex() for w in writes]),
                      '%s/%s' % (front, framing))
    return what


def run_defaults(acc, front, framing):
    """unit contexts built by the real ModbusSlaveContext constructor with tables left at their default:
    a write to unit 1 must not show through unit 2 (observed through replies; the default blocks have 65536 cells)"""
    from pymodbus.datastore import ModbusSequentialDataBlock, ModbusSlaveContext
    from checks.c04 import FullTable
    from ref import datamodel
    reset.control_block()
    real, refs = {}, {}
    for u in (1, 2):
        real[u] = ModbusSlaveContext(zero_mode=True, hr=ModbusSequentialDataBlock(0, [0x5000 + u] * 8))
        refs[u] = datamodel.Store({'d': FullTable(), 'c': FullTable(), 'i': FullTable(), 'h': dict((i, 0x5000 + u) for i in range(8))})
    ctx = servers.server_context(dict(real), False)
    ref = routing.RefServer(refs, False, False, False)
    srv = servers.Server(front, framing, ctx)
    conn = srv.open()
    steps = [(1, dict(kind='req', fc=5, address=3, value=0xFF00)), (2, dict(kind='req', fc=1, address=3, count=1)),
             (1, dict(kind='req', fc=15, address=9, count=2, byte_count=1, bits=[True, True])), (2, dict(kind='req', fc=1, address=9, count=2)),
             (2, dict(kind='req', fc=2, address=3, count=1)), (1, dict(kind='req', fc=6, address=2, value=0x0777)),
             (2, dict(kind='req', fc=3, address=2, count=1)), (2, dict(kind='req', fc=4, address=2, count=1))]
    bad = None
    for i, (unit, m) in enumerate(steps):
        want = ref.handle(unit, m)[0]
        got = scenario.parse_out(framing, conn.run_script([scenario.frame(framing, unit, 0x0200 + i, m)]))
        acc.inc('transitions')
        if len(got) != 1 or scenario.match(framing, got[0], unit, 0x0200 + i, want) is not None:
            bad = (i, unit, m, got)
            break
    srv.shutdown()
    acc.inc('evaluations')
    if bad:
        i, unit, m, got = bad
        acc.violation('C10/%s/%s/multi/default-tables/other-store-touched' % (front, framing),
                      dict(front=front, framing=framing, hosted=[1, 2], bc=False, ign=False, defaults=True, steps=[[u, pdu.encode(mm).hex()] for u, mm in steps[:i + 1]]),
                      'units built with default tables: step %d to unit %d answered %r' % (i, unit, [g.get('pdu', b'').hex() for g in got]), '%s/%s' % (front, framing))
    return bad


RECONF = [
    [(1, 'W'), ('+', 4), (4, 'W'), (4, 'R')],                       # a unit added while the connection is open is hosted from then on
    [(1, 'W'), ('-', 2), (0, 'W'), (2, 'W'), (3, 'R')],             # a unit removed: no longer addressed by a broadcast, absent afterwards
    [(2, 'W'), ('-', 2), ('+', 2), (2, 'R')],                       # removed and added again with a fresh datastore
    [('+', 4), ('-', 1), (0, 'W'), (4, 'R'), (1, 'R'), (3, 'R')],
]
# the server is built on a multi-unit context that hosts nothing yet; the application adds the units afterwards
RECONF_EMPTY = [
    [('+', 5), (5, 'W'), (5, 'R'), (9, 'W')],
    [(1, 'W'), ('+', 1), (1, 'W'), (1, 'R')],
]


def run_reconf(acc, front, framing, bc, ign, steps, hosted0=(1, 2, 3)):
    """the application adds / removes units of a multi-unit context between two reads of ONE open connection"""
    ctx, ref, real, log = build(hosted0, bc, ign)
    srv = servers.Server(front, framing, ctx, broadcast_enable=bc, ignore_missing_slaves=ign)
    conn = srv.open()
    LAY = scenario.LAY
    script, reqs, expected = [], [], []

    def add(u):
        st = scenario.unit_state(u + 7)
        real[u] = LAY.build(st)
        ctx[u] = Counting(real[u], log, u)

    def remove(u):
        del ctx[u]
        real.pop(u, None)
    for i, (a, b) in enumerate(steps):
        if a == '+':
            script.append(lambda u=b: add(u))
            ref.stores[b] = LAY.ref(scenario.unit_state(b + 7))
        elif a == '-':
            script.append(lambda u=b: remove(u))
            ref.stores.pop(b, None)
        else:
            m = REQS[b](i)
            reqs.append((a, 0x0200 + i, b))
            expected.append(ref.handle(a, m))
            script.append(scenario.frame(framing, a, 0x0200 + i, m))
    if servers.FRONTS[front][0] == 'stream':
        writes = conn.run_script(script)
    else:
        writes = []
        for it in script:
            writes.extend(conn.run_script([it]))
    got = scenario.parse_out(framing, writes)
    after, want = scenario.dumps(real), scenario.ref_dumps(ref)
    problems = []
    gi = 0
    for (unit, tid, kind), alts in zip(reqs, expected):
        replies = [x for x in alts if x is not None]
        if not replies:
            continue
        if gi < len(got) and any(scenario.match(framing, got[gi], unit, tid, x) is None for x in replies):
            gi += 1
        elif None not in alts:
            problems.append('no-or-wrong-reply-for-%s%d' % (kind, unit))
    if gi < len(got):
        problems.append('extra-reply')
    if after != want:
        problems.append('wrong-store')
    for where, e in srv.escaped:
        problems.append('escape:' + type(e).__name__)
    srv.shutdown()
    acc.inc('transitions', len(steps))
    acc.inc('evaluations')
    for what in sorted(set(problems)):
        acc.violation('C10/%s/%s/multi/bc=%d,ign=%d/reconfigured/%s' % (front, framing, bc, ign, what),
                      dict(front=front, framing=framing, hosted=list(hosted0), bc=bc, ign=ign, reconf=[list(x) for x in steps]),
                      '%s (steps %r, wrote %r)' % (what, steps, [w.hex() for w in writes][:6]), '%s/%s' % (front, framing))
    return problems


SMALL = stores.Layout(('seq', 0, 3), True, False)


def run_nonuniform(acc, front, framing, small_unit):
    """hosted units whose tables differ in size: a broadcast write that one unit must refuse (address outside ITS table)
    is still applied to every unit that can take it"""
    reset.control_block()
    log = []
    lays = dict((u, SMALL if u == small_unit else scenario.LAY) for u in (1, 2, 3))
    real, refs, wrapped = {}, {}, {}
    for u in (1, 2, 3):
        st = lays[u].initial_state()
        real[u] = lays[u].build(st)
        refs[u] = lays[u].ref(st)
        wrapped[u] = Counting(real[u], log, u)
    ctx = servers.server_context(wrapped, False)
    ref = routing.RefServer(refs, False, True, False)
    srv = servers.Server(front, framing, ctx, broadcast_enable=True)
    conn = srv.open()
    problems = []
    reqs = [dict(kind='req', fc=6, address=5, value=0x0BCA), dict(kind='req', fc=16, address=4, count=2, byte_count=4, registers=[0x1601, 0x1602]),
            dict(kind='req', fc=5, address=6, value=0xFF00)]
    for i, m in enumerate(reqs):
        ref.handle(0, m)
        writes = conn.run_script([scenario.frame(framing, 0, 0x0400 + i, m)])
        if writes:
            problems.append('reply-on-broadcast')
    after = dict((u, lays[u].dump(real[u])) for u in real)
    want = dict((u, lays[u].dump_ref(ref.stores[u])) for u in real)
    for u in after:
        if after[u] != want[u]:
            problems.append('not-applied-to-all')
    for where, e in srv.escaped:
        problems.append('escape:' + type(e).__name__)
    srv.shutdown()
    acc.inc('transitions', len(reqs))
    acc.inc('evaluations')
    for what in sorted(set(problems)):
        acc.violation('C10/%s/%s/multi/bc=1,ign=0/non-uniform-units/%s' % (front, framing, what),
                      dict(front=front, framing=framing, hosted=[1, 2, 3], nonuniform=small_unit),
                      '%s: unit %d has 3-cell tables, the others 8-cell ones; broadcast writes to addresses 4..6' % (what, small_unit), '%s/%s' % (front, framing))
    return problems


def run_one(acc, front, framing, hosted, bc, ign, steps, record=True):
    ctx, ref, real, log = build(hosted, bc, ign)
    srv = servers.Server(front, framing, ctx, broadcast_enable=bc, ignore_missing_slaves=ign)
    conn = srv.open()
    mode = 'single' if hosted is None else 'multi'
    flags = 'bc=%d,ign=%d' % (bc, ign)
    wit = dict(front=front, framing=framing, hosted=list(hosted) if hosted else None, bc=bc, ign=ign, steps=[list(s) for s in steps])
    cfgname = '%s/%s' % (front, framing)
    problems = []
    for i, (unit, kind) in enumerate(steps):
        m = REQS[kind](i)
        del log[:]
        before = scenario.dumps(real)
        alts = ref.handle(unit, scenario.as_msg(m))
        writes = conn.run_script([scenario.frame(framing, unit, 0x0100 + i, m)])
        got = scenario.parse_out(framing, writes)
        after = scenario.dumps(real)
        want = scenario.ref_dumps(ref)
        is_bc = bc and unit == 0
        hosted_here = ref.hosted(unit)
        # replies
        replies = [a for a in alts if a is not None]
        if len(got) > 1:
            problems.append('more-than-one-reply')
        elif got:
            if not replies:
                problems.append('reply-on-broadcast' if is_bc else 'reply-for-ignored-unit')
            elif all(scenario.match(framing, got[0], unit, 0x0100 + i, a) is not None for a in replies):
                problems.append('bad-exception' if not hosted_here else 'wrong-reply')
        elif None not in alts:
            problems.append('no-reply')
        # stores
        for u in after:
            if after[u] != want[u]:
                if after[u] != before[u] and want[u] == before[u]:
                    problems.append('other-store-touched' if hosted_here or is_bc else 'absent-unit-request-executed')
                else:
                    problems.append('not-applied-to-all' if is_bc else 'wrong-store')
        # calls: a write is applied exactly once to each addressed unit, never to others
        if kind in ('W', 'C', 'M', 'F', 'G'):
            sets = [u for u, op in log if op == 'set']
            if is_bc:
                targets = sorted(real)
            elif hosted_here:
                targets = [0] if hosted is None else [unit]
            else:
                targets = []
            for u in set(sets) | set(targets):
                n = sets.count(u)
                if u in targets and n != 1 and after == want:
                    problems.append('applied-%d-times' % n)
                if u not in targets and n:
                    problems.append('other-store-touched')
        for where, e in srv.escaped:
            problems.append('escape:' + type(e).__name__)
        del srv.escaped[:]
    srv.shutdown()
    if record:
        acc.inc('transitions', len(steps))
        acc.inc('evaluations')
    for what in sorted(set(problems)):
        acc.violation('C10/%s/%s/%s/%s/%s' % (front, framing, mode, flags, what), wit,
                      '%s (hosted %r, steps %r)' % (what, hosted, steps), cfgname)
    return problems


def shard(args):
    front, framing, tier = args
    acc = Acc()
    units = QUICK_UNITS if tier == 'quick' else list(range(256))
    seq_units = [0, 1, 2, 9, 247, 255]
    n = 0
    for hosted in HOSTED:
        for bc in (False, True):
            if bc and front.startswith('tw'):
                continue                   # Twisted offers no broadcast option
            for ign in (False, True):
                for u in units:
                    for kind in ('W', 'C', 'R', 'M', 'X'):
                        run_one(acc, front, framing, hosted, bc, ign, [(u, kind)])
                        n += 1
                for fail_unit in ([0] if hosted is None else list(hosted)):
                    for u in ([0, 1] if hosted is None else sorted(set([0] + list(hosted)))):
                        run_fault(acc, front, framing, hosted, bc, ign, fail_unit, u)
                        n += 1
                for a in seq_units:
                    for b in seq_units:
                        run_one(acc, front, framing, hosted, bc, ign, [(a, 'W'), (b, 'R')])
                        n += 1
                # a whole-table write, then a write to one unit: what the first one stored is each unit's own copy
                for a in (0, 1, 2):
                    for b in (1, 2, 255):
                        for k1, k2 in (('F', 'W'), ('G', 'C')):
                            run_one(acc, front, framing, hosted, bc, ign, [(a, k1), (b, k2), (a, 'R')])
                            n += 1
    for bc in (False, True):
        if bc and front.startswith('tw'):
            continue
        for ign in (False, True):
            for steps in RECONF:
                run_reconf(acc, front, framing, bc, ign, steps)
                n += 1
            for steps in RECONF_EMPTY:
                run_reconf(acc, front, framing, bc, ign, steps, hosted0=())
                n += 1
    if not front.startswith('tw'):
        for small_unit in (1, 2, 3):
            run_nonuniform(acc, front, framing, small_unit)
            n += 1
    run_defaults(acc, front, framing)
    if framing == 'tcp' and front in ('sync-tcp', 'sync-udp', 'aio-udp', 'tw-udp'):
        for a, b in ((1, 2), (2, 1), (1, 1), (9, 1), (1, 9)):
            run_stale_header(acc, front, framing, (1, 2), a, b)
            n += 1
    acc.inc('states', n + 1)
    acc.add('nontrivial', (front, framing))
    acc.sample(dict(front=front, framing=framing, hosted_sets=[list(h) if h else 'single' for h in HOSTED], units=units[:12]))
    return acc


def run(tier, seed):
    shards = [(f, fr, tier) for f, (k, frs) in servers.FRONTS.items() for fr in frs if fr != 'tls']     # TLS framing carries no unit id
    acc = par.run_shards(shard, shards)
    acc.n['traces_validated_against_impl'] = acc.n.get('evaluations', 0)
    return dict(acc=acc, level=LEVEL,
                coverage=dict(
                    rule='state = one configuration (front-end, framer, hosted set, flags, request sequence); transition = one request delivered; '
                         'per-unit four-table dumps and per-unit call logs are compared with the reference after every request',
                    bounds='unit ids %s x hosted sets single,{1},{1,2},{0,1},{2,255},{1,247} x broadcast x ignore_missing x 18 front-end/framer pairs x '
                           '{write register, write coils, read, mask write}; plus all (write to a, read from b) over units {0,1,2,9,247,255}; plus (whole-table write to a, write to b, read a) over a in {0,1,2}, b in {1,2,255}'
                           % ('0..255' if tier == 'thorough' else QUICK_UNITS)),
                assumptions=['a request to an absent unit may be answered not at all or with gateway exception 0x0A/0x0B',
                             'Twisted has no broadcast option: broadcast rows are not required of it'])


def replay(w):
    acc = Acc()
    if w.get('nonuniform'):
        p = run_nonuniform(acc, w['front'], w['framing'], w['nonuniform'])
    elif w.get('reconf'):
        p = run_reconf(acc, w['front'], w['framing'], w['bc'], w['ign'], [tuple(x) for x in w['reconf']], hosted0=tuple(w['hosted']))
    elif w.get('stale'):
        p = run_stale_header(acc, w['front'], w['framing'], tuple(w['hosted']), w['stale'][0], w['stale'][1])
    elif w.get('defaults'):
        p = run_defaults(acc, w['front'], w['framing'])
    elif 'fail_unit' in w:
        p = run_fault(acc, w['front'], w['framing'], tuple(w['hosted']) if w['hosted'] else None, w['bc'], w['ign'],
                      w['fail_unit'], w['steps'][0][0])
    else:
        p = run_one(acc, w['front'], w['framing'], tuple(w['hosted']) if w['hosted'] else None, w['bc'], w['ign'],
                    [tuple(s) for s in w['steps']])
    return bool(p), '\n'.join('%s: %s' % (v['sig'], v['msg']) for v in acc.violations) or 'no violation'
