"""C12 -- no received byte sequence can crash a server or corrupt its data.

Fault enumeration over hostile token sequences: every sequence of <= 2 (quick) /
<= 3 (thorough) tokens from a per-framer hostile alphabet built by the reference
ADU builder (a valid write; every truncation of it; MBAP lengths 0/1/2/actual+-1/
65535; PDUs whose byte count contradicts their data or quantity; zero-length PDU;
unknown function codes, sub-functions, MEI types; file records with a bad reference
type or lengths running past the PDU; delimiter bytes; bad checksum) is delivered
whole and split at every position of its last token to EVERY front-end x framer.
Oracle: (i) no exception escapes the serving code, (ii) the datastore equals the
reference store after some in-order subsequence of the intact valid writes in the
input, (iii) a well-formed probe on a fresh connection afterwards is answered
correctly for that store.
"""
import itertools

from mc.acc import Acc
from mc import par
from ref import adu, pdu, datamodel, crc
from harness import servers, scenario, gen

ID = 'C12'
LEVEL = 'fault_enumeration'
UNIT = 1
W1 = dict(kind='req', fc=6, address=2, value=0x1111)
W2 = dict(kind='req', fc=6, address=3, value=0x2222)
PROBE = dict(kind='req', fc=3, address=0, count=6)


def F(framing, body, tid=0x0031):
    return adu.build(framing, UNIT, body, tid=tid)


def hostile_pdus():
    W = lambda v: int(v).to_bytes(2, 'big')   # noqa: E731
    return [
        ('fc16-short-data', b'\x10' + W(2) + W(2) + b'\x04' + W(0x7001)),
        ('fc16-long-data', b'\x10' + W(2) + W(1) + b'\x02' + W(0x7002) + W(0x7003)),
        ('fc16-qty-ne-bc', b'\x10' + W(2) + W(3) + b'\x02' + W(0x7004)),
        ('fc16-no-data', b'\x10' + W(2) + W(1) + b'\x02'),
        ('fc15-qty9-bc1', b'\x0f' + W(0) + W(9) + b'\x01\xff'),
        ('fc15-bc2-1byte', b'\x0f' + W(0) + W(3) + b'\x02\x05'),
        ('fc23-short-data', b'\x17' + W(0) + W(1) + W(2) + W(2) + b'\x04' + W(0x7005)),
        ('fc23-header-only', b'\x17' + W(0) + W(1)),
        ('zero-length-pdu', b''),
        ('fc00', b'\x00\x00'),
        ('fc41', b'\x41\x00'),
        ('fc7f', b'\x7f'),
        ('fc83-exception-as-request', b'\x83\x02'),
        ('fc08-unknown-sub', b'\x08\x00\xff\x00\x00'),
        ('fc08-no-data', b'\x08\x00'),
        ('fc08-one-byte', b'\x08'),
        ('fc2b-mei-0d', b'\x2b\x0d\x01\x00'),
        # MEI types that are also diagnostic sub-function numbers (Force Listen Only = 4, Clear Counters = 10)
        ('fc2b-mei-04', b'\x2b\x04\x01\x00'),
        ('fc2b-mei-0a', b'\x2b\x0a\x01\x00'),
        ('fc2b-mei-01', b'\x2b\x01\x00\x00'),
        ('fc08-sub-0e', b'\x08\x00\x0e\x00\x00'),
        ('fc2b-readcode9', b'\x2b\x0e\x09\x00'),
        ('fc2b-readcode0', b'\x2b\x0e\x00\x00'),
        ('fc2b-short', b'\x2b\x0e'),
        ('fc14-reftype7', b'\x14\x07\x07' + W(1) + W(2) + W(1)),
        ('fc14-bc-past-pdu', b'\x14\x0e\x06' + W(1) + W(2) + W(1)),
        ('fc15h-len-past-pdu', b'\x15\x09\x06' + W(1) + W(2) + W(0x40) + W(0x7006)),
        ('fc15h-reftype7', b'\x15\x09\x07' + W(1) + W(2) + W(1) + W(0x7007)),
        ('fc03-trailing', b'\x03' + W(0) + W(1) + b'\x00\x00'),
        ('fc03-1byte', b'\x03\x00'),
        ('fc05-3bytes', b'\x05\x00\x02\xff'),
        ('fc01-empty', b'\x01'),
        ('fc06-5bytes', b'\x06' + W(2) + W(0x7008) + b'\x00'),
        ('fc18-short', b'\x18\x00'),
        ('fc16-header-only', b'\x16' + W(2)),
    ]


def alphabet(framing, tier):
    """[(name, bytes, intact_write_or_None)]"""
    out = []
    v1, v2 = F(framing, pdu.encode(W1)), F(framing, pdu.encode(W2), tid=0x0032)
    out.append(('valid-write-1', v1, W1))
    out.append(('valid-write-2', v2, W2))
    for k in range(1, len(v1)):
        out.append(('truncated-%d' % k, v1[:k], None))
    if framing == 'tcp':
        real = int.from_bytes(v1[4:6], 'big')
        for ln in (0, 1, 2, real - 1, real + 1, 0xFFFF):
            out.append(('mbap-len-%d' % ln, v1[:4] + ln.to_bytes(2, 'big') + v1[6:], None))
    else:
        bad = bytearray(v1)
        bad[-3 if framing != 'rtu' else -1] ^= 0x01
        out.append(('bad-checksum', bytes(bad), None))
    for name, body in hostile_pdus():
        if body == b'':
            if framing == 'tcp':
                fr = b'\x00\x31\x00\x00\x00\x01\x01'
            elif framing == 'rtu':
                fr = b'\x01' + crc.crc_wire(b'\x01')
            elif framing == 'ascii':
                fr = b':01FF\r\n'
            else:
                fr = b'{\x01' + crc.crc_wire(b'\x01') + b'}'
        else:
            fr = F(framing, body)
        out.append((name, fr, None))
    for b in gen.B8:
        out.append(('byte-%02X' % b, bytes([b]), None))
    return out


EMPTY = ('empty-datagram', b'', None)
import socket as _socket
TIMEOUT = ('idle-timeout', _socket.timeout('timed out'), None)


def embedded(framing):
    """a valid Write Multiple Registers request whose register data is itself a well-formed frame (a write of
    0xDEAD to register 5): the inner bytes are DATA and must never be executed as a request"""
    inner = F(framing, pdu.encode(dict(kind='req', fc=6, address=5, value=0xDEAD)), tid=0x0099)
    if len(inner) % 2:
        inner += b'\x00'
    regs = [int.from_bytes(inner[i:i + 2], 'big') for i in range(0, len(inner), 2)]
    m = dict(kind='req', fc=16, address=0, count=len(regs), byte_count=2 * len(regs), registers=regs)
    fr = F(framing, pdu.encode(m), tid=0x0033)
    at = fr.find(inner)
    return ('write-with-embedded-frame', fr, m, at if at > 0 else len(fr) // 2)


def expected_stores(writes):
    """all final states reachable by applying an in-order subsequence of the intact writes"""
    outs = []
    for mask in itertools.product((False, True), repeat=len(writes)):
        st = scenario.LAY.ref(scenario.unit_state(0))
        for use, w in zip(mask, writes):
            if use:
                datamodel.execute(st, w)
        outs.append(scenario.LAY.dump_ref(st))
    return outs


def stream_writes(framing, chunks, kind):
    """the well-formed, integrity-valid write requests contained in the input: every contiguous window
    that the reference ADU parser accepts as a frame and whose PDU is a conformant write (ordered by
    position).  On TCP a truncated frame completed by the bytes that follow it IS such a window."""
    streams = [b''.join(c for c in chunks if isinstance(c, (bytes, bytearray)))] if kind == 'stream' else [c for c in chunks if isinstance(c, (bytes, bytearray))]
    out = []
    for st in streams:
        found = []
        windows = adu.valid_frames_in(framing, st)
        if framing == 'tcp' and kind == 'stream':
            # a TCP receiver never resynchronises inside a frame: frame boundaries follow from the length fields,
            # read one after the other from the start of the connection.  Only when that walk meets a header it
            # cannot accept (length < 2) is the rest of the stream judged window by window.
            seq, pos = [], 0
            while pos + 7 <= len(st):
                ln = int.from_bytes(st[pos + 4:pos + 6], 'big')
                if ln < 2:
                    seq.extend(w for w in windows if w[0] >= pos)
                    break
                end = pos + 6 + ln
                if end > len(st):
                    break
                seq.extend(w for w in windows if w[0] == pos and w[1] == end)
                pos = end
            windows = seq
        for s0, e0, p in windows:
            try:
                m = pdu.decode('req', p['pdu'])
            except (pdu.Malformed, Exception):   # noqa
                continue
            if m['fc'] in (5, 6, 15, 16, 22, 23):
                found.append((s0, m))
        out.extend(m for _, m in sorted(found, key=lambda t: t[0]))
    return out


def run_one(acc, front, framing, names, chunks, writes, record=True):
    writes = stream_writes(framing, chunks, servers.FRONTS[front][0])
    if len(writes) > 6:
        writes = writes[:6]
    cfg = scenario.Cfg(True, (1,), False, False)
    ctx, ref, real = scenario.build(cfg)
    srv = servers.Server(front, framing, ctx)
    conn = srv.open()
    kind = servers.FRONTS[front][0]
    conn.run_script(chunks)
    wit = dict(front=front, framing=framing, tokens=list(names), chunks=[c.hex() if isinstance(c, (bytes, bytearray)) else 'timeout' for c in chunks])
    cfgname = '%s/%s' % (front, framing)
    last = names[-1]
    if last.startswith(('truncated-', 'byte-')):
        last = last.split('-')[0]
    problems = []
    for where, e in srv.escaped:
        problems.append('escape:%s' % type(e).__name__)
    del srv.escaped[:]
    after = scenario.LAY.dump(real[0])
    if after not in expected_stores(writes):
        problems.append('store-corrupt')
    # (iii) a well-formed probe afterwards, on a fresh connection (same line for serial)
    want = pdu.encode(datamodel.execute(scenario.LAY.ref(after), PROBE))
    answered = False
    tries = 70 if front == 'sync-serial' else 1       # a serial line resynchronises within two maximum-size frames (C11)
    c2 = conn if front == 'sync-serial' else srv.open(('10.0.0.2', 40002))
    for t in range(tries):
        out = c2.run_script([scenario.frame(framing, UNIT, 0x0040 + t, PROBE)])
        got = scenario.parse_out(framing, out)
        if len(got) == 1 and 'garbage' not in got[0] and got[0]['pdu'] == want:
            answered = True
            break
    if not answered:
        problems.append('probe-failed')
    for where, e in srv.escaped:
        problems.append('escape-on-probe:%s' % type(e).__name__)
    srv.shutdown()
    if record:
        acc.inc('evaluations')
        if conn.closed:
            acc.inc('connections_closed_by_server')
        if after != scenario.LAY.dump_ref(scenario.LAY.ref(scenario.unit_state(0))):
            acc.inc('executions_with_store_change')
    for what in sorted(set(problems)):
        tail = last
        if what == 'store-corrupt':
            # name the malformed write(s) in the input rather than the last token
            culprits = sorted(set(n for n in names if n.startswith(('fc15', 'fc16', 'fc23', 'fc05', 'fc06'))))
            tail = '+'.join(culprits) or last
        acc.violation('C12/%s/%s/%s/%s' % (front, framing, what, tail), wit, '%s after tokens %r' % (what, names), cfgname)
    return problems


def shard(args):
    front, framing, tier, part, parts = args
    acc = Acc()
    alpha = alphabet(framing, tier)
    small = [a for a in alpha if a[0].startswith(('valid', 'fc16-short', 'fc15-qty9', 'zero', 'fc41', 'fc08-one', 'fc14-bc', 'byte-7B', 'byte-0D',
                                                  'truncated-3', 'truncated-9', 'mbap-len-0', 'mbap-len-65535', 'bad-checksum', 'fc2b-short'))]
    kind = servers.FRONTS[front][0]
    if kind == 'dgram':
        alpha = alpha + [EMPTY]          # a zero-length datagram is a legal thing for a peer to send
    seqs = [(a,) for a in alpha] + [(a, b) for a in alpha for b in alpha]
    emb = embedded(framing)
    extra = []
    if framing in ('tcp', 'ascii', 'binary') or True:
        extra.append(((emb[:3],), emb[3]))
        if front in ('sync-tcp', 'sync-serial'):
            extra.append(((TIMEOUT, emb[:3]), emb[3]))
    if tier == 'thorough':
        seqs += [(a, b, c) for a in small for b in small for c in small]
    n = 0
    for si, seq in enumerate(seqs):
        if si % parts != part:
            continue
        names = [a[0] for a in seq]
        writes = [a[2] for a in seq if a[2] is not None]
        whole = [a[1] for a in seq]
        if kind == 'stream':
            run_one(acc, front, framing, names, [b''.join(whole)], writes)
            n += 1
            lastb = whole[-1]
            if len(lastb) > 1 and (len(seq) == 1 or tier == 'thorough' or si % 7 == 0):
                head = b''.join(whole[:-1])
                for cut in range(1, len(lastb)):
                    run_one(acc, front, framing, names, [head + lastb[:cut], lastb[cut:]], writes)
                    n += 1
        else:
            run_one(acc, front, framing, names, whole, writes)       # one token per datagram
            n += 1
    if part == 0:
        for seq, cut in extra:
            names = [a[0] for a in seq]
            items = [a[1] for a in seq]
            frame = items[-1]
            if kind == 'stream':
                run_one(acc, front, framing, names, items[:-1] + [frame], [])
                run_one(acc, front, framing, names, items[:-1] + [frame[:cut], frame[cut:]], [])     # cut exactly where the embedded frame starts
                for c2 in (cut - 1, cut + 1, cut + 7):
                    run_one(acc, front, framing, names, items[:-1] + [frame[:c2], frame[c2:]], [])
                n += 5
            else:
                run_one(acc, front, framing, names, [frame], [])
                n += 1
    acc.add('nontrivial', (front, framing))
    acc.inc('hostile_sequences', n)
    if part == 0:
        acc.sample(dict(front=front, framing=framing, alphabet=[(nm, b.hex()) for nm, b, _ in alpha[:3]] + ['... %d tokens' % len(alpha)]))
    return acc


def run(tier, seed):
    parts = 2 if tier == 'quick' else 6
    shards = [(f, fr, tier, k, parts) for f, (kd, frs) in servers.FRONTS.items() for fr in frs if fr != 'tls' for k in range(parts)]
    acc = par.run_shards(shard, shards)
    he = None
    if acc.n.get('executions_with_store_change', 0) < 50:
        he = 'vacuous: the valid writes inside the hostile input were never executed'
    return dict(acc=acc, level=LEVEL, harness_error=he,
                coverage=dict(
                    rule='one case = one hostile token sequence + delivery schedule on one front-end x framer, followed by a probe on a fresh '
                         'connection; non-trivial = front-end x framer pairs',
                    bounds='all sequences of <= 2 tokens over the per-framer hostile alphabet (~60 tokens: see module docstring)%s; delivered whole; '
                           'single tokens%s additionally split at every position of the last token; 18 front-end x framer pairs'
                           % ((', all triples over a 16-token subset', ' and all sequences') if tier == 'thorough' else ('', ' and every 7th pair'))),
                assumptions=['"all byte strings" is replaced by all short compositions of every kind of malformation the decoders distinguish (a bound, not exhaustiveness over bytes)',
                             'an exception leaving Twisted dataReceived/datagramReceived is contained by the reactor (connection dropped / datagram discarded) and is not counted as an escape',
                             'on the single serial line the probe is repeated (up to 70 times = two maximum-size frames of traffic) until it is answered'])


def replay(w):
    acc = Acc()
    p = run_one(acc, w['front'], w['framing'], w['tokens'], [bytes.fromhex(c) if c != 'timeout' else _socket.timeout('timed out') for c in w['chunks']], [])
    return bool(p), '\n'.join('%s: %s' % (v['sig'], v['msg']) for v in acc.violations) or 'no violation'
