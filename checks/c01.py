"""C01 -- PDU wire format conforms to the Modbus application protocol.

Exhaustive enumeration over the stated finite alphabets (harness/gen.py) of every
message class in both directions against the spec-derived reference codec
(ref/pdu.py):  encode direction  bytes([fc]) + obj.encode() == ref.encode(m);
decode direction  decoder.decode(ref.encode(m)) has the bound class and every
public field equals the reference decoding of the same bytes.
"""
from mc.acc import Acc
from mc import par
from ref import pdu
from harness import bind, gen, framers

ID = 'C01'
LEVEL = 'exploration'


def first_diff(a, b):
    for k in sorted(set(a) | set(b)):
        if a.get(k) != b.get(k):
            return k
    return None


def norm(m):
    """bit lists of responses are compared up to zero padding to a byte boundary"""
    m = dict(m)
    if m.get('kind') == 'rsp' and m.get('fc') in (1, 2) and 'bits' in m:
        bits = list(m['bits'])
        bits += [False] * (-len(bits) % 8)
        m['bits'] = bits
    for k, v in list(m.items()):
        if isinstance(v, (bytes, bytearray)):
            m[k] = bytes(v)
        elif isinstance(v, (list, tuple)):
            m[k] = [tuple(bytes(y) if isinstance(y, (bytes, bytearray)) else y for y in x)
                    if isinstance(x, (list, tuple)) else (bytes(x) if isinstance(x, (bytes, bytearray)) else x)
                    for x in v]
    return m


def check_enc(m, side):
    """returns (what, detail) or None"""
    exp = pdu.encode(m)
    try:
        got = bind.pdu_bytes(bind.to_obj(m))
    except Exception as e:   # noqa
        return 'raise:' + type(e).__name__, repr(e)[:120], exp
    if got == exp:
        return None
    what = 'layout'
    try:
        gm = pdu.decode(side, got)
        what = first_diff(norm(gm), norm(pdu.decode(side, exp))) or 'layout'
    except Exception:   # noqa
        pass
    return what, 'encoded %s expected %s' % (got.hex()[:80], exp.hex()[:80]), exp


def check_dec(m, side, raw):
    dec = framers.decoder(side)
    try:
        o = dec.decode(raw)
    except Exception as e:   # noqa
        return 'raise:' + type(e).__name__, repr(e)[:120]
    if o is None:
        return 'none', 'decoder returned None for a conformant PDU'
    want_cls = bind.cls_name(m)
    if type(o).__name__ != want_cls:
        return 'class', 'decoded to %s, expected %s' % (type(o).__name__, want_cls)
    try:
        gm = bind.to_msg(o)
    except Exception as e:   # noqa
        return 'fields-unreadable', repr(e)[:120]
    em = pdu.decode(side, raw)
    d = first_diff(norm(gm), norm(em))
    if d is not None:
        return d, 'field %s decoded as %r, wire value %r' % (d, str(norm(gm).get(d))[:60], str(norm(em).get(d))[:60])
    return None


def shard(args):
    if args[0] == 'register':
        return shard_register(args)
    if args[0] == 'built':
        return shard_built(args)
    kind, fc, tier = args
    acc = Acc()
    side = 'req' if kind == 'req' else 'rsp'
    seen = set()
    for m in gen.messages(kind, fc, tier):
        raw = pdu.encode(m)
        seen.add(raw)
        cname = bind.cls_name(m)
        acc.inc('evaluations', 2)
        if len(raw) > 253:
            # not expressible as one PDU: whatever the library does with it, it must not emit more than 253 bytes
            try:
                got = bind.pdu_bytes(bind.to_obj(m))
            except Exception:   # noqa
                got = b''
            if len(got) > 253:
                acc.violation('C01/%s/enc/oversize' % cname, dict(cls=cname, dir='enc', side=side, pdu=raw.hex()),
                              'encoded PDU of %d bytes (maximum 253)' % len(got), cname)
            continue
        r = check_enc(m, side)
        if r:
            acc.violation('C01/%s/enc/%s' % (cname, r[0]), dict(cls=cname, dir='enc', side=side, pdu=raw.hex()),
                          r[1], cname)
        r = check_dec(m, side, raw)
        if r:
            acc.violation('C01/%s/dec/%s' % (cname, r[0]), dict(cls=cname, dir='dec', side=side, pdu=raw.hex()),
                          r[1], cname)
        if len(acc.samples) < 1:
            acc.sample(dict(cls=cname, pdu=raw.hex()[:64], message={k: (v if not isinstance(v, (bytes, list)) else str(v)[:40])
                                                                    for k, v in m.items()}))
    acc.inc('distinct_pdus', len(seen))
    acc.add('classes', (kind, fc))
    # documented convenience forms of the constructors: a scalar where a one-element list is meant
    if kind == 'req' and fc in (0x0F, 0x10, 0x17, 8):
        for v in (0, 1, 0x7B, 0xFFFF) if fc != 0x0F else (False, True, 0, 1):
            if fc == 0x10:
                o = bind.REQ[fc](0x0102, v)
                want = pdu.encode(dict(kind='req', fc=fc, address=0x0102, count=1, byte_count=2, registers=[v]))
            elif fc == 0x0F:
                o = bind.REQ[fc](0x0102, v)
                want = pdu.encode(dict(kind='req', fc=fc, address=0x0102, count=1, byte_count=1, bits=[bool(v)]))
                if not v:
                    continue            # the documented falsy form means 'no values'; only truthy scalars are a one-coil write
            elif fc == 0x17:
                o = bind.REQ[fc](read_address=1, read_count=2, write_address=3, write_registers=v)
                want = pdu.encode(dict(kind='req', fc=fc, read_address=1, read_count=2, write_address=3, write_count=1,
                                       write_byte_count=2, write_registers=[v]))
            else:
                import pymodbus.diag_message as dm
                o = dm.ReturnQueryDataRequest(v)
                want = pdu.encode(dict(kind='req', fc=8, sub=0, data=[v]))
            acc.inc('evaluations')
            try:
                got = bind.pdu_bytes(o)
            except Exception as e:   # noqa
                got = repr(e).encode()
            if got != want:
                acc.violation('C01/%s/enc/scalar-argument' % type(o).__name__,
                              dict(cls=type(o).__name__, dir='scalar', side='req', pdu=want.hex(), value=int(v)),
                              'constructor given the scalar %r encodes %s, expected %s' % (v, got.hex() if isinstance(got, bytes) else got, want.hex()),
                              type(o).__name__)
    # bit lists given as truthy / falsy integers (a datastore may hold coils as 0xFF00 / 0, or 0 / 1 / 2): ON is truthiness
    if (kind, fc) in (('rsp', 1), ('rsp', 2), ('req', 0x0F)):
        for vals in ([0xFF00, 0, 0xFF00], [2, 0, 1, 4, 0, 0, 0, 0, 8], [1, 1, 0], [0x100, 0x8000]):
            bits = [bool(v) for v in vals]
            if kind == 'rsp':
                o = bind.RSP[fc](list(vals))
                want = pdu.encode(dict(kind='rsp', fc=fc, byte_count=(len(bits) + 7) // 8, bits=bits))
            else:
                o = bind.REQ[fc](0x0013, list(vals))
                want = pdu.encode(dict(kind='req', fc=fc, address=0x0013, count=len(bits), byte_count=(len(bits) + 7) // 8, bits=bits))
            acc.inc('evaluations')
            try:
                got = bind.pdu_bytes(o)
            except Exception as e:   # noqa
                got = repr(e).encode()
            if got != want:
                acc.violation('C01/%s/enc/integer-bit-values' % type(o).__name__,
                              dict(cls=type(o).__name__, dir='intbits', side='req' if kind == 'req' else 'rsp', pdu=want.hex(), values=list(vals)),
                              'bit values %r encode as %s, expected %s' % (vals, got.hex(), want.hex()), type(o).__name__)
    # exception responses produced by doException for every request class
    if kind == 'req':
        m0 = next(gen.messages(kind, fc, 'quick'))
        for code in range(256):
            acc.inc('evaluations')
            try:
                got = bind.pdu_bytes(bind.to_obj(m0).doException(code))
            except Exception as e:   # noqa
                got = repr(e).encode()
            if got != bytes([fc | 0x80, code]):
                acc.violation('C01/%s/enc/doException' % bind.cls_name(m0),
                              dict(cls=bind.cls_name(m0), dir='exc', side='req', pdu=pdu.encode(m0).hex(), code=code),
                              'doException(%d) encodes to %r' % (code, got[:8]), bind.cls_name(m0))
    return acc


def shard_register(args):
    """register() adds the application's own classes to ONE decoder: a vendor diagnostic sub-function (08/0x0064), a
    vendor MEI type (2B/0x0D) and a new function code (0x45).  Every standard PDU still decodes to its class and
    fields, and the vendor PDUs decode to the vendor classes."""
    import struct
    from pymodbus.factory import ServerDecoder, ClientDecoder
    from pymodbus.pdu import ModbusRequest, ModbusResponse
    side = args[1]
    acc = Acc()
    base = ModbusRequest if side == 'req' else ModbusResponse

    import pymodbus.diag_message as dm
    import pymodbus.mei_message as mm

    def vendor(name, fc):
        ns = dict(function_code=fc, _rtu_frame_size=8, __init__=lambda self, **kw: base.__init__(self, **kw),
                  encode=lambda self: self.raw, decode=lambda self, data: setattr(self, 'raw', bytes(data)),
                  execute=lambda self, ctx: self)
        return type(name, (base,), ns)
    dec = (ServerDecoder if side == 'req' else ClientDecoder)()
    # vendor sub-functions derive from the library's own function-level classes (whose decode() reads the sub-code)
    v_diag = type('VendorDiag', (dm.DiagnosticStatusRequest if side == 'req' else dm.DiagnosticStatusResponse,), dict(sub_function_code=0x64))
    v_mei = type('VendorMei', (mm.ReadDeviceInformationRequest if side == 'req' else mm.ReadDeviceInformationResponse,), dict(sub_function_code=0x0D))
    v_new = vendor('VendorFc45', 0x45)

    def vendor_sub(name, fc, sub):
        # a function code of the application's own that is split into sub-functions (no function-level class exists)
        def decode(self, data):
            self.sub_function_code = struct.unpack('>H', bytes(data[:2]))[0]
            self.raw = bytes(data)
        c = vendor(name, fc)
        c.sub_function_code = sub
        c.decode = decode
        return c
    v_s1, v_s2 = vendor_sub('VendorFc46Sub1', 0x46, 1), vendor_sub('VendorFc46Sub2', 0x46, 2)
    for v in (v_diag, v_mei, v_new, v_s1, v_s2):
        dec.register(v)
    kinds = ('req',) if side == 'req' else ('rsp', 'exc')
    for kind, fc in gen.CLASSES:
        if kind not in kinds:
            continue
        seen = set()
        for m in gen.messages(kind, fc, 'quick'):
            key = (m.get('sub'), m.get('read_code')) if kind != 'exc' else (m['fc'] in (8, 0x2B, 0x45),)
            if key in seen:
                continue
            seen.add(key)
            raw = pdu.encode(m)
            if len(raw) > 253:
                continue
            acc.inc('evaluations')
            want = bind.cls_name(m)
            try:
                o = dec.decode(raw)
                got = type(o).__name__
                if want in [c.__name__ for c in type(o).__mro__]:
                    got = want          # register() replaces the function-level class: a vendor subclass of it IS that class
            except Exception as e:   # noqa
                got = 'raise:' + type(e).__name__
            if got != want:
                acc.violation('C01/%s/dec/after-register' % want, dict(cls=want, dir='register', side=side, pdu=raw.hex()),
                              'after registering vendor classes on this decoder a standard %s PDU decodes as %s' % (want, got), want)
    for v, raw in ((v_diag, struct.pack('>BHH', 8, 0x64, 1)), (v_mei, bytes([0x2B, 0x0D, 1, 0]) if side == 'req' else bytes([0x2B, 0x0D, 1, 1, 0, 0, 0])), (v_new, bytes([0x45, 9, 9])),
                   (v_s1, bytes([0x46, 0, 1, 7])), (v_s2, bytes([0x46, 0, 2, 7])), (v_s1, bytes([0x46, 0, 1]))):
        acc.inc('evaluations')
        try:
            got = type(dec.decode(raw)).__name__
        except Exception as e:   # noqa
            got = 'raise:' + type(e).__name__
        if got != v.__name__:
            acc.violation('C01/%s/dec/registered-class-not-used' % v.__name__, dict(cls=v.__name__, dir='register', side=side, pdu=raw.hex()),
                          'the registered class is not chosen for its own PDU: %s' % got, v.__name__)
    acc.add('classes', ('register', side))
    return acc


def shard_built(args):
    """responses the library builds itself: Report Slave ID (FC 17) answered from the device identity, for identities in
    plain ASCII and in other scripts.  The identifier's contents are device specific; its layout is not: the byte count is
    the number of bytes that follow it (identifier + run indicator), the run indicator is 00 or FF, and the client decoder
    hands back exactly the identifier bytes on the wire."""
    from harness import reset
    from pymodbus.factory import ServerDecoder, ClientDecoder
    acc = Acc()
    for name, items in (('ascii', [(0, 'Vendor'), (1, 'PC-7'), (2, 'V2.11')]), ('latin', [(0, 'M\u00fcller AG'), (1, 'Typ \u00c4'), (2, 'v1')]),
                        ('wide', [(0, '\u03a9mega\u20ac'), (1, '\u6e29\u5ea6'), (2, '1')]), ('empty', [])):
        reset.control_block()
        reset.set_identity(items)
        acc.inc('evaluations')
        wit = dict(cls='ReportSlaveIdResponse', dir='built', identity=name)
        try:
            rsp = ServerDecoder().decode(b'\x11').execute(None)
            raw = bytes([rsp.function_code]) + rsp.encode()
        except Exception as e:   # noqa
            acc.violation('C01/ReportSlaveIdResponse/built/raise:%s' % type(e).__name__, wit, repr(e)[:100], 'ReportSlaveIdResponse')
            continue
        ok = len(raw) >= 3 and raw[0] == 0x11 and raw[1] == len(raw) - 2 and raw[-1] in (0x00, 0xFF)
        if not ok:
            acc.violation('C01/ReportSlaveIdResponse/built/layout', wit, 'server-built response %s: byte count %d, %d bytes follow it' % (raw.hex()[:60], raw[1] if len(raw) > 1 else -1, len(raw) - 2), 'ReportSlaveIdResponse')
            continue
        try:
            d = ClientDecoder().decode(raw)
            ident = bytes(d.identifier)
        except Exception as e:   # noqa
            ident = 'raise:' + type(e).__name__
        if ident != raw[2:-1]:
            acc.violation('C01/ReportSlaveIdResponse/built/decoded-identifier', wit, 'decoded identifier %r, on the wire %r' % (ident, raw[2:-1]), 'ReportSlaveIdResponse')
    reset.control_block()
    acc.add('classes', ('built', 'rsp'))
    return acc


def run(tier, seed):
    shards = [(k, fc, tier) for k, fc in gen.CLASSES] + [('register', 'req', tier), ('register', 'rsp', tier), ('built', 'rsp', tier)]
    acc = par.run_shards(shard, shards)
    he = None
    if acc.count('classes') != len(gen.CLASSES) + 3:
        he = 'not every message class was enumerated'
    return dict(acc=acc, level=LEVEL, harness_error=he,
                coverage=dict(
                    distinct_nontrivial=acc.n.get('distinct_pdus', 0),
                    rule='one case = one (message, direction): encode compared byte-for-byte with the reference '
                         'encoder, decode compared class + every field with the reference decoder; '
                         'distinct_nontrivial = number of distinct PDUs byte strings enumerated',
                    classes=len(gen.CLASSES),
                    bounds='alphabets of harness/gen.py: 16-bit fields over the 26-value boundary alphabet in full '
                           'cross product (12-value alphabet for 3-field PDUs in quick)'
                           + ('; plus every value 0..65535 of every 16-bit field with the others at 3 anchors' if tier == 'thorough' else '')
                           + '; bit lists: every length ' + ('0..2000 / 1..1968' if tier == 'thorough' else '0..40 and the last 10 below the limit')
                           + ' x 5 contents and every content for lengths <= 10; register lists every length to the limit; '
                             'all 127x256 exception PDUs; every diagnostic sub-function'),
                assumptions=['ref/pdu.py transcribes V1.1b3 section 6 (anchored by the spec worked examples in selftest)',
                             'harness/bind.py maps representation only (bool coil <-> FF00/0000, diagnostic data <-> word list)'])


def replay(w):
    if w.get('dir') == 'built':
        acc = shard_built(('built', 'rsp', 'quick'))
        vs = [v for v in acc.violations if v['witness'] == w]
        return bool(vs), '\n'.join(v['msg'] for v in vs) or 'no violation'
    side = w['side']
    raw = bytes.fromhex(w['pdu'])
    m = pdu.decode(side, raw)
    lines = ['class %s pdu %s' % (w['cls'], w['pdu'][:120])]
    bad = False
    if w['dir'] == 'register':
        acc = shard_register(('register', side, 'quick'))
        vs = [v for v in acc.violations if v['witness'] == w]
        return bool(vs), '\n'.join(v['msg'] for v in vs) or 'no violation'
    if w['dir'] == 'intbits':
        acc = shard((('req' if side == 'req' else 'rsp'), m['fc'], 'quick'))
        vs = [v for v in acc.violations if v['witness'] == w]
        return bool(vs), '\n'.join(v['msg'] for v in vs) or 'no violation'
    if w['dir'] == 'scalar':
        acc = shard(('req', m['fc'], 'quick'))
        vs = [v for v in acc.violations if v['witness'] == w]
        return bool(vs), '\n'.join(v['msg'] for v in vs) or 'no violation'
    if w['dir'] == 'enc':
        r = check_enc(m, side)
        lines.append('encode: %s' % (r[:2] if r else 'matches reference',))
        bad = r is not None
    elif w['dir'] == 'dec':
        r = check_dec(m, side, raw)
        lines.append('decode: %s' % (r if r else 'matches reference',))
        bad = r is not None
    else:
        got = bind.pdu_bytes(bind.to_obj(m).doException(w['code']))
        bad = got != bytes([m['fc'] | 0x80, w['code']])
        lines.append('doException -> %s' % got.hex())
    return bad, '\n'.join(lines)
