"""C19 -- payload builder and decoder agree for every byte and word order.

Exhaustive enumeration of typed-value sequences (13 types, per-type boundary
alphabets) x 4 byte/word order combinations x transport as bytes and as registers.
Oracle: ref/payload.py gives the conventional register image; decoding with the
same orders must return the values exactly, in order.  All four order combinations
are exercised inside ONE process in alternating order, so state leaking between
builders/decoders (module or class level) is observable.
"""
import itertools
import math
import struct

from mc.acc import Acc
from mc import par
from ref import payload as rp
from harness import repo  # noqa: F401

from pymodbus.payload import BinaryPayloadBuilder, BinaryPayloadDecoder
from pymodbus.constants import Endian

ID = 'C19'
LEVEL = 'exploration'
ORD = {'big': Endian.Big, 'little': Endian.Little}
ORDERS = [(b, w) for b in ('big', 'little') for w in ('big', 'little')]
SUB = 5e-324

VALUES = {
    'u8': [0, 1, 0x7F, 0x80, 0xFE, 0xFF],
    'i8': [-128, -1, 0, 1, 0x12, 127],
    'u16': [0, 1, 0x1234, 0x00FF, 0xFF00, 0xFFFF],
    'i16': [-32768, -1, 0, 1, 0x1234, 32767],
    'u32': [0, 1, 0x12345678, 0x0000FFFF, 0xFFFF0000, 0xFFFFFFFF],
    'i32': [-2 ** 31, -1, 0, 1, 0x12345678, 2 ** 31 - 1],
    'u64': [0, 1, 0x0123456789ABCDEF, 0x00000000FFFFFFFF, 2 ** 64 - 1],
    'i64': [-2 ** 63, -1, 0, 1, 0x0123456789ABCDEF, 2 ** 63 - 1],
    'f16': [0.0, -0.0, 5.960464477539063e-08, 1.5, 65504.0, float('inf'), float('-inf'), 1.0],
    'f32': [0.0, -0.0, 1.401298464324817e-45, 1.5, 3.4028234663852886e+38, float('inf'), float('-inf'), -123.25],
    'f64': [0.0, -0.0, SUB, 1.5, 1.7976931348623157e+308, float('inf'), float('-inf'), 0.1],
    'str': [b'', b'a', b'ab', b'abc', b'\x00\xff{}', 'text', '21\u00b0C', '\u03a9\u20ac', b'abc\x00', b'\x00', b' ab \x00\x00', b'hello'],
    'bits': [[True], [False, True, True], [True] * 8, [bool(i % 3) for i in range(9)], [bool((0xA5C3 >> i) & 1) for i in range(16)]],
}
TYPES = list(VALUES)
ADD = {'u8': 'add_8bit_uint', 'i8': 'add_8bit_int', 'u16': 'add_16bit_uint', 'i16': 'add_16bit_int',
       'u32': 'add_32bit_uint', 'i32': 'add_32bit_int', 'u64': 'add_64bit_uint', 'i64': 'add_64bit_int',
       'f16': 'add_16bit_float', 'f32': 'add_32bit_float', 'f64': 'add_64bit_float', 'str': 'add_string', 'bits': 'add_bits'}
DEC = {k: v.replace('add_', 'decode_') for k, v in ADD.items()}


def wire(t, v):
    """a text string travels as its UTF-8 bytes"""
    return v.encode('utf-8') if t == 'str' and isinstance(v, str) else v


def same(typ, a, b):
    a, b = wire(typ, a), wire(typ, b)
    if typ.startswith('f'):
        fm = '!' + rp.FMT[typ]
        try:
            return struct.pack(fm, a) == struct.pack(fm, b)
        except Exception:   # noqa
            return False
    if typ == 'bits':
        a, b = list(a), list(b)
        n = max(len(a), len(b))
        return a + [False] * (n - len(a)) == b + [False] * (n - len(b))
    return a == b


def decode_all(dec, seq):
    out = []
    for t, v in seq:
        if t == 'str':
            out.append(dec.decode_string(len(wire(t, v))))
        elif t == 'bits':
            # the documented idiom for a group longer than 8 bits: extend the first list handed back, in place
            bits = dec.decode_bits() if len(v) else []
            for _ in range((len(v) + 7) // 8 - 1):
                bits += dec.decode_bits()
            out.append(bits)
        else:
            out.append(getattr(dec, DEC[t])())
    return out


def jv(v):
    if isinstance(v, str):
        return 'text:' + v
    if isinstance(v, float):
        return struct.pack('!d', v).hex()
    if isinstance(v, bytes):
        return v.hex()
    return v


from harness.repo import DebugLogging  # noqa: E402


def one(acc, seq, bo, wo, debug=False):
    if debug:
        with DebugLogging():
            return _one(acc, seq, bo, wo, dict(debug_logging=True))
    return _one(acc, seq, bo, wo, {})


def _one(acc, seq, bo, wo, extra):
    acc.inc('evaluations')
    wit = dict(seq=[(t, jv(v)) for t, v in seq], byteorder=bo, wordorder=wo, **extra)
    tag = bo[0] + wo[0]
    b = BinaryPayloadBuilder(byteorder=ORD[bo], wordorder=ORD[wo])
    try:
        for t, v in seq:
            getattr(b, ADD[t])(list(v) if t == 'bits' else v)
        raw = b.to_string()
        regs = b.to_registers()
        built = b.build()
    except Exception as e:   # noqa
        acc.violation('C19/%s/%s/build/raise:%s' % (seq[0][0], tag, type(e).__name__), wit, repr(e)[:120], tag)
        return
    rseq = tuple((t, wire(t, v)) for t, v in seq)
    exp = rp.image(rseq, bo, wo)
    # a builder that is reset and filled again must produce the image of what it was filled with the second
    # time: the same values again, and other values of the same types (same number of items)
    for which in ('same', 'other'):
        seq2 = seq if which == 'same' else tuple((t, VALUES[t][(VALUES[t].index(v) + 1) % len(VALUES[t])] if v in VALUES[t] else v) for t, v in seq)
        exp2 = rp.image(tuple((t, wire(t, v)) for t, v in seq2), bo, wo)
        try:
            b.reset()
            for t, v in seq2:
                getattr(b, ADD[t])(list(v) if t == 'bits' else v)
            got2 = b.to_string()
            if got2 != exp2 and (which == 'other' or got2 != raw):
                acc.violation('C19/%s/%s/image/after-reset' % (seq[0][0], tag), wit if which == 'same' else dict(wit, refill='other'),
                              'image after reset() + refill %s, expected %s' % (got2.hex(), exp2.hex()), tag)
            elif which == 'other' and (b.to_registers() != rp.registers(exp2) or b''.join(b.build()) != bytes(exp2) + b'\x00' * (len(exp2) % 2)):
                acc.violation('C19/%s/%s/image/after-reset' % (seq[0][0], tag), dict(wit, refill='other'),
                              'registers after reset() + refill are not those of the new values', tag)
        except Exception as e:   # noqa
            acc.violation('C19/%s/%s/image/after-reset-raise:%s' % (seq[0][0], tag, type(e).__name__), wit, repr(e)[:100], tag)
    # serialising in the middle (build / to_registers of what is there so far) and then adding more values gives the
    # same image as packing everything in one go
    if len(seq) >= 2:
        try:
            b2 = BinaryPayloadBuilder(byteorder=ORD[bo], wordorder=ORD[wo])
            t0, v0 = seq[0]
            getattr(b2, ADD[t0])(list(v0) if t0 == 'bits' else v0)
            b2.build(); b2.to_registers(); b2.to_string()
            for t, v in seq[1:]:
                getattr(b2, ADD[t])(list(v) if t == 'bits' else v)
            if b2.to_string() != raw:
                acc.violation('C19/%s/%s/image/after-intermediate-build' % (seq[0][0], tag), dict(wit, intermediate=True),
                              'image %s after build() in the middle, %s when packed in one go' % (b2.to_string().hex(), raw.hex()), tag)
        except Exception as e:   # noqa
            acc.violation('C19/%s/%s/image/after-intermediate-build-raise:%s' % (seq[0][0], tag, type(e).__name__), dict(wit, intermediate=True), repr(e)[:100], tag)
    if raw != exp:
        # attribute to the first item whose slice differs
        pos, typ = 0, seq[-1][0]
        for t, v in rseq:
            ln = len(rp.item_bytes(t, v, bo, wo))
            if raw[pos:pos + ln] != exp[pos:pos + ln]:
                typ = t
                break
            pos += ln
        acc.violation('C19/%s/%s/image/bytes' % (typ, tag), wit, 'to_string() %s expected %s' % (raw.hex(), exp.hex()), tag)
    if regs != rp.registers(exp) or b''.join(built) != bytes(exp) + b'\x00' * (len(exp) % 2):
        acc.violation('C19/%s/%s/image/registers' % (seq[0][0], tag), wit,
                      'to_registers() %r expected %r' % (regs[:8], rp.registers(exp)[:8]), tag)
    # the documented way to send a payload: build() + skip_encode=True must put the same registers on the wire
    if built and len(built) <= 123:
        try:
            from pymodbus.register_write_message import WriteMultipleRegistersRequest
            wire_pdu = WriteMultipleRegistersRequest(0x0010, built, skip_encode=True).encode()
            want_pdu = struct.pack('>HHB', 0x0010, len(built), 2 * len(built)) + bytes(exp) + b'\x00' * (len(exp) % 2)
            if wire_pdu != want_pdu:
                acc.violation('C19/%s/%s/image/skip-encode' % (seq[0][0], tag), wit,
                              'write-registers PDU from build() %s, expected %s' % (wire_pdu.hex()[:60], want_pdu.hex()[:60]), tag)
        except Exception as e:   # noqa
            acc.violation('C19/%s/%s/image/skip-encode-raise:%s' % (seq[0][0], tag, type(e).__name__), wit, repr(e)[:100], tag)
    for transport in ('bytes', 'registers'):
        try:
            if transport == 'bytes':
                d = BinaryPayloadDecoder(raw, byteorder=ORD[bo], wordorder=ORD[wo])
            else:
                d = BinaryPayloadDecoder.fromRegisters(regs, byteorder=ORD[bo], wordorder=ORD[wo])
            handed = decode_all(d, seq)
            first = [repr(x) for x in handed]
            got = [list(x) if isinstance(x, list) else x for x in handed]
            for x in handed:                # the caller does what it likes with the lists it was handed
                if isinstance(x, list):
                    x.append('edited')
            d.reset()                       # rewinding the decoder gives the same values again
            again = decode_all(d, seq)
            if [repr(x) for x in again] != first:
                acc.violation('C19/%s/%s/roundtrip/%s/after-reset' % (seq[0][0], tag, transport), wit, 'second pass after reset() differs', tag)
        except Exception as e:   # noqa
            acc.violation('C19/%s/%s/roundtrip/%s/raise:%s' % (seq[0][0], tag, transport, type(e).__name__), wit, repr(e)[:120], tag)
            continue
        for (t, v), g in zip(seq, got):
            if not same(t, v, g):
                acc.violation('C19/%s/%s/roundtrip/%s' % (t, tag, transport), wit,
                              'decoded %r, packed %r' % (jv(g) if not isinstance(g, list) else g, jv(v) if not isinstance(v, list) else v), tag)
                break


def sequences(tier):
    items = [(t, v) for t in TYPES for v in VALUES[t]]
    for it in items:
        yield (it,)
    two = items
    for a, b in itertools.product(two, repeat=2):
        yield (a, b)
    rep = [(t, VALUES[t][-1 if t in ('str', 'bits') else 2]) for t in TYPES]
    three = rep if tier == 'quick' else [(t, v) for t in TYPES for v in VALUES[t][-2:]]
    for s in itertools.product(three, repeat=3):
        yield s
    if tier == 'thorough':
        for s in itertools.product(rep, repeat=4):
            yield s


def shard(args):
    tier, k, n = args
    acc = Acc()
    for i, seq in enumerate(sequences(tier)):
        if i % n != k:
            continue
        orders = ORDERS if (i // n) % 2 == 0 else list(reversed(ORDERS))
        for bo, wo in orders:
            one(acc, seq, bo, wo)
        if len(seq) <= 2:
            one(acc, seq, orders[0][0], orders[0][1], debug=True)       # ... and with the library's debug logging switched on
        acc.add('nontrivial', tuple((t, jv(v) if not isinstance(v, list) else tuple(v)) for t, v in seq))
        if not acc.samples and len(seq) == 3:
            acc.sample(dict(seq=[(t, jv(v)) for t, v in seq], image_big_big=rp.image(seq, 'big', 'big').hex()))
    return acc


def run(tier, seed):
    n = 16
    acc = par.run_shards(shard, [(tier, k, n) for k in range(n)])
    return dict(acc=acc, level=LEVEL,
                coverage=dict(
                    rule='one case = one (value sequence, byte order, word order): builder image compared with the reference '
                         'image, then decoded from bytes and from registers; non-trivial = distinct value sequences',
                    bounds='13 types x per-type boundary alphabets (extremes, -1, subnormal/inf floats, odd/even strings, 1..16-bit groups); '
                           'all single items, all pairs over all values, all triples over %s, %s; x 4 order combinations x 2 transports'
                           % (('1 representative per type', 'no 4-sequences') if tier == 'quick'
                              else ('2 values per type', 'all 4-sequences over 1 representative per type'))),
                assumptions=['ref/payload.py encodes the conventional layouts named in the property text', 'struct module'])


def replay(w):
    acc = Acc()
    seq = []
    for t, v in w['seq']:
        if t.startswith('f'):
            v = struct.unpack('!d', bytes.fromhex(v))[0]
        elif t == 'str':
            v = v[5:] if v.startswith('text:') else bytes.fromhex(v)
        seq.append((t, v))
    one(acc, tuple(seq), w['byteorder'], w['wordorder'], debug=bool(w.get('debug_logging')))
    return bool(acc.violations), '\n'.join('%s: %s' % (v['sig'], v['msg']) for v in acc.violations) or 'no violation'
