"""C09 -- a server sends exactly one matching response per accepted request.

Explicit-state exploration of request histories: every sequence of request tokens
up to the depth bound is delivered (pipelined in one read, and one frame per read)
to EVERY front-end x framer through the real handler / protocol classes; the bytes
written back are parsed by the reference ADU parser and compared with the replies
of the reference server (ref/routing.py + ref/datamodel.py): exactly the replies
due, in request order, echoing transaction id, unit id and function code; nothing
for broadcast, ignored absent units and listen-only; no other bytes.
"""
import itertools

from mc.acc import Acc
from mc import par
from ref import pdu
from harness import servers, scenario

ID = 'C09'
LEVEL = 'model_checking'
TOKENS = ['R', 'W', 'E2', 'E3', 'E1', 'D', 'X', 'U0', 'UA', 'L']
TIDS = [1, 0xFFFF, 0]


def configs(front):
    out = []
    for single, units in ((True, (1,)), (False, (1, 2)), (False, (1, 255))):      # hosting 255 lets every unit id reach execute()
        for bc in (False, True):
            for ign in (False, True):
                if bc and front.startswith('tw'):
                    continue            # the Twisted front-end offers no broadcast option
                out.append(scenario.Cfg(single, units, bc, ign))
    return out


def sequences(depth):
    for n in range(1, depth + 1):
        for seq in itertools.product(TOKENS, repeat=n):
            if 'L' in seq[:-1]:
                continue                # listen-only mode: what follows is front-end specific (not a common feature)
            yield seq


def run_one(acc, front, framing, cfg, seq, delivery, record=True):
    ctx, ref, real = scenario.build(cfg)
    srv = servers.Server(front, framing, ctx, broadcast_enable=cfg.broadcast, ignore_missing_slaves=cfg.ignore)
    conn = srv.open()
    reqs, frames, expected = [], [], []
    for i, tok in enumerate(seq):
        unit, m = scenario.token(tok, i, cfg)
        tid = TIDS[i % 3]
        reqs.append((unit, tid, tok))
        frames.append(scenario.frame(framing, unit, tid, m))
        expected.append(ref.handle(unit, scenario.as_msg(m) if not isinstance(m, dict) else m))
    whole = b''.join(frames)
    cut = len(whole) - len(frames[-1]) // 2 - 1          # inside the last frame
    if delivery == 'pipelined':
        script = [whole]
    elif delivery == 'split':
        script = [whole[:cut], whole[cut:]]
    elif delivery == 'timeout+split':
        import socket
        script = [socket.timeout('timed out'), whole[:cut], whole[cut:]]     # an idle period on the connection first
    elif delivery == 'debris-first':
        # datagram fronts: a truncated datagram arrives first; every later datagram is still a request of its own
        script = [frames[0][:max(1, len(frames[0]) // 2)]] + list(frames)
    elif delivery.startswith('junk-header'):
        # TCP streams: an MBAP header announcing no PDU (length 0 or 1) in front of the requests, all in one read.  A
        # front-end may treat it as a protocol error and close the connection; if it keeps the connection it owes the replies
        k = int(delivery[-1])
        script = [b'\x00\x09\x00\x00\x00' + bytes([k]) + b'\x01' * k + whole]
    else:
        script = list(frames)
    writes = conn.run_script(script)
    got = scenario.parse_out(framing, writes)
    gave_up = delivery.startswith('junk-header') and bool(getattr(conn, 'closed', False))
    srv.shutdown()
    wit = dict(front=front, framing=framing, cfg=[cfg.single, list(cfg.units), cfg.broadcast, cfg.ignore],
               seq=list(seq), delivery=delivery)
    cfgname = '%s/%s' % (front, framing)
    problems = []
    gi = 0
    for (unit, tid, tok), alts in zip(reqs, expected):
        replies = [a for a in alts if a is not None]
        if not replies:
            continue
        if gi < len(got):
            why = [scenario.match(framing, got[gi], unit, tid, a) for a in replies]
            if any(w is None for w in why):
                gi += 1
                continue
            if None in alts:
                continue            # no reply is acceptable for this request; the frame belongs to a later one
            # is the expected reply further down (a reply was dropped) or is this one wrong?
            later = any(scenario.match(framing, g, unit, tid, a) is None for g in got[gi + 1:] for a in replies)
            problems.append((('out-of-order' if later else why[0]), tok))
            gi += 1
        elif None not in alts:
            problems.append(('missing', tok))
    for g in got[gi:]:
        problems.append(('extra', seq[-1]))
    for where, e in srv.escaped:
        problems.append(('escape:' + type(e).__name__, seq[-1]))
    if gave_up:
        problems = [p for p in problems if p[0] == 'extra' or p[0].startswith('escape')]
    if record:
        acc.inc('transitions', len(seq))
        acc.inc('evaluations')
        if any(a != [None] for a in expected) and len(got):
            acc.inc('executions_with_replies')
    seenp = set()
    for what, tok in problems:
        if (what, tok) in seenp:
            continue
        seenp.add((what, tok))
        acc.violation('C09/%s/%s/%s/%s/%s/%s' % (front, framing, what, delivery, cfg.mode, tok), wit,
                      '%s for token %s; wrote %r' % (what, tok, [w.hex() for w in writes][:4]), cfgname)
    return problems


def shard(args):
    front, framing, depth = args
    acc = Acc()
    kind = servers.FRONTS[front][0]
    nodes = set()
    for cfg in configs(front):
        if framing == 'tls' and (not cfg.single or cfg.broadcast):
            continue            # the TLS framing carries no unit id: only a single context is meaningful
        for seq in sequences(depth):
            if framing == 'tls' and ('UA' in seq or 'U0' in seq):
                continue
            nodes.add((cfg.name, seq))
            modes = ('pipelined', 'per-read', 'split') if kind == 'stream' else ('per-read',)
            if kind != 'stream':
                modes += ('debris-first',)
            if framing == 'tls':
                modes = ('per-read',)       # a TLS record is one PDU: no length field to pipeline or split by
            if front in ('sync-tcp', 'sync-serial') and framing != 'tls':
                modes += ('timeout+split',)
            if kind == 'stream' and framing == 'tcp' and len(seq) <= 2:
                modes += ('junk-header0', 'junk-header1')
            for delivery in modes:
                run_one(acc, front, framing, cfg, seq, delivery)
    # requests of ONE function code with different lengths (FC16 with one and with three registers), mixed with reads
    if framing != 'tls':
        for cfg in (scenario.Cfg(True, (1,), False, False), scenario.Cfg(False, (1, 2), False, False)):
            for n in (2, 3):
                for seq in itertools.product(('M1', 'M3', 'R'), repeat=n):
                    if 'M1' not in seq or 'M3' not in seq:
                        continue
                    nodes.add((cfg.name, seq))
                    for delivery in (('pipelined', 'per-read') if kind == 'stream' else ('per-read',)):
                        run_one(acc, front, framing, cfg, seq, delivery)
    # a hosted unit's datastore raises while a write is applied: a broadcast is still never answered, a directed
    # write is answered exactly once with exception 04 echoing the request's ids (same scenario as C10's fault cases)
    from checks import c10
    tmp = Acc()
    for hosted in ((None, (1, 2)) if framing != 'tls' else ()):
        for bc in (False, True):
            if bc and front.startswith('tw'):
                continue
            for fail_unit in ([0] if hosted is None else list(hosted)):
                for u in ([0, 1] if hosted is None else [0, 1, 2]):
                    c10.run_fault(tmp, front, framing, hosted, bc, False, fail_unit, u)
                    acc.inc('evaluations')
                    acc.inc('transitions')
    for v in tmp.violations:
        what = v['sig'].split('/')[-1]
        acc.violation('C09/%s/%s/%s/per-read/%s/W' % (front, framing, what, 'single' if v['witness']['hosted'] is None else 'multi'),
                      dict(v['witness'], fault=True), v['msg'], '%s/%s' % (front, framing))
    # units added to / removed from the context while the connection is open (same scenarios as C10): a request for
    # a unit hosted at the time it arrives gets exactly one reply
    tmp = Acc()
    for bc in ((False, True) if framing != 'tls' else ()):
        if bc and front.startswith('tw'):
            continue
        for ign in (False, True):
            for steps in c10.RECONF:
                c10.run_reconf(tmp, front, framing, bc, ign, steps)
                acc.inc('evaluations')
                acc.inc('transitions', len(steps))
    for v in tmp.violations:
        what = v['sig'].split('/')[-1]
        if what == 'wrong-store':
            continue
        acc.violation('C09/%s/%s/%s/per-read/reconfigured/%s' % (front, framing, what, 'multi'), v['witness'], v['msg'], '%s/%s' % (front, framing))
    acc.inc('states', len(nodes))
    acc.add('nontrivial', (front, framing))
    acc.sample(dict(front=front, framing=framing, example_sequence=['R', 'W', 'UA'],
                    frames=[scenario.frame(framing, *scenario.token(t, i, scenario.Cfg())[:1], TIDS[i], scenario.token(t, i, scenario.Cfg())[1]).hex()
                            for i, t in enumerate(['R', 'W', 'UA'])]))
    return acc


def run(tier, seed):
    depth = 3 if tier == 'quick' else 4
    shards = [(f, fr, depth) for f, (k, frs) in servers.FRONTS.items() for fr in frs]
    acc = par.run_shards(shard, shards)
    acc.n['traces_validated_against_impl'] = acc.n.get('evaluations', 0)
    he = None if acc.n.get('executions_with_replies', 0) > 100 else 'vacuous: no replies observed'
    return dict(acc=acc, level=LEVEL, harness_error=he,
                coverage=dict(
                    rule='state = (configuration, request history) node of the history tree; transition = one request frame delivered to the '
                         'real front-end; every history is run pipelined, one-frame-per-read, split inside the last frame, and (sync front-ends) after an idle socket timeout; non-trivial = (front-end, framer) pairs',
                    bounds='7 front-ends x the framers each accepts (18 pairs); all sequences of length <= %d over the tokens %r '
                           '(listen-only only as last token); transaction ids 1, 0xFFFF, 0 by position; single context and units {1,2}; '
                           'broadcast_enable x ignore_missing_slaves' % (depth, TOKENS)),
                assumptions=['ref/routing.py + ref/datamodel.py decide which replies are due',
                             'a request to an absent unit may be answered not at all or with gateway exception 0x0A/0x0B (C10)',
                             'fake sockets/transports/event loop stand in for the OS; one write call = one frame'])


def replay(w):
    if w.get('reconf'):
        from checks import c10
        return c10.replay(w)
    acc = Acc()
    if w.get('fault'):
        from checks import c10
        p = c10.run_fault(acc, w['front'], w['framing'], tuple(w['hosted']) if w['hosted'] else None, w['bc'], w['ign'], w['fail_unit'], w['steps'][0][0])
        return bool(p), str(p)
    cfg = scenario.Cfg(*w['cfg'])
    p = run_one(acc, w['front'], w['framing'], cfg, tuple(w['seq']), w['delivery'])
    return bool(p), '\n'.join('%s: %s' % (v['sig'], v['msg']) for v in acc.violations) or 'no violation'
