"""C03 -- each transport framing builds the spec ADU and round-trips messages.

Exhaustive enumeration: 5 framers x both directions x every catalogued message
class (plus payloads made of framing delimiters) x all unit ids 0..255 x
transaction / protocol ids over boundary alphabets (all 65536 transaction ids in
thorough); checksum functions against the bitwise references on every byte string
of length <= 2 and on single-byte variations of structured strings.
Oracle: ref/adu.py builds the expected ADU byte for byte; a FRESH real receiver
given the packet whole must deliver exactly one message equal to the original.
"""
from mc.acc import Acc
from mc import par
from ref import adu, pdu, crc
from harness import bind, gen, framers, catalog
from checks.c01 import norm, first_diff

ID = 'C03'
LEVEL = 'exploration'


def id_space(framing, tier, heavy):
    """(unit, tid, pid) triples"""
    out = [(u, 1, 0) for u in range(256)]
    if framing == 'tcp':
        for t in gen.B16:
            for u in (0, 1, 0xFF):
                for p in (0, 1, 0xFFFF):
                    out.append((u, t, p))
        if tier == 'thorough' and heavy:
            for t in range(0x10000):
                for u in (0, 1, 0xFF):
                    out.append((u, t, 0))
    return out


def payload_class(framing, m, raw):
    body = raw[1:]
    if any(b in body for b in (0x7B, 0x7D)):
        return 'delimiter-brace'
    if any(b in body for b in (0x3A, 0x0D, 0x0A)):
        return 'delimiter-ascii'
    return 'plain'


def one(acc, framing, side, m, unit, tid, pid, debug=False):
    if debug:
        from harness.repo import DebugLogging
        with DebugLogging():
            return _one(acc, framing, side, m, unit, tid, pid, dict(debug_logging=True))
    return _one(acc, framing, side, m, unit, tid, pid, {})


def _one(acc, framing, side, m, unit, tid, pid, extra):
    """Framing is isolated from PDU conformance (C01/C02): the expected ADU wraps the
    bytes the object itself encodes to, and the delivered message is compared with what
    the decoder factory makes of that same bare PDU."""
    cname = bind.cls_name(m)
    o = bind.to_obj(dict(m, unit=unit, tid=tid, pid=pid))
    raw = bind.pdu_bytes(o)
    pc = payload_class(framing, m, raw)
    wit = dict(framing=framing, side=side, pdu=pdu.encode(m).hex(), unit=unit, tid=tid, pid=pid, **extra)
    cfg = '%s/%s/%s' % (framing, side, cname)
    acc.inc('evaluations')
    fr = framers.make(framing, side)
    try:
        pkt = fr.buildPacket(o)
    except Exception as e:   # noqa
        acc.violation('C03/%s/%s/%s/build/raise:%s/%s' % (framing, side, cname, type(e).__name__, pc), wit, repr(e)[:100], cfg)
        return
    exp = [adu.build(framing, unit, raw, tid=tid, pid=pid)]
    if framing == 'binary':
        exp.append(adu.build(framing, unit, raw, binary_crc='raw'))
    if pkt not in exp:
        acc.violation('C03/%s/%s/%s/build/%s' % (framing, side, cname, pc), wit,
                      'built %s expected %s' % (pkt.hex()[:80], exp[0].hex()[:80]), cfg)
    ref_obj = framers.decoder(side).decode(raw)
    if ref_obj is None:
        acc.inc('skipped_pdu_not_decodable')     # a C01/C02 matter (known findings there)
        return
    # fresh receiver, packet handed over whole
    rx = framers.make(framing, side)
    got = []
    try:
        rx.processIncomingPacket(pkt, got.append, [unit], single=(framing == 'tls'))
    except Exception as e:   # noqa
        acc.violation('C03/%s/%s/%s/deliver/raise:%s/%s' % (framing, side, cname, type(e).__name__, pc), wit,
                      'receiver raised %r' % e, cfg)
        return
    if len(got) != 1:
        acc.violation('C03/%s/%s/%s/deliver/count/%s' % (framing, side, cname, pc), wit,
                      '%d messages delivered' % len(got), cfg)
        return
    d = got[0]
    if type(d) is not type(o):          # "a message equal to the original": the original's class, not merely the decoder's choice
        acc.violation('C03/%s/%s/%s/deliver/class/%s' % (framing, side, cname, pc), wit, 'delivered ' + type(d).__name__, cfg)
        return
    try:
        df = first_diff(norm(bind.to_msg(d)), norm(bind.to_msg(ref_obj)))
    except Exception as e:   # noqa
        df = 'fields-unreadable'
    if df:
        acc.violation('C03/%s/%s/%s/deliver/%s/%s' % (framing, side, cname, df, pc), wit,
                      'field %s differs from the decoding of the bare PDU' % df, cfg)
    if framing != 'tls' and d.unit_id != unit:
        acc.violation('C03/%s/%s/%s/deliver/unit_id/%s' % (framing, side, cname, pc), wit, 'unit %r' % d.unit_id, cfg)
    if framing == 'tcp' and (d.transaction_id != tid or d.protocol_id != pid):
        acc.violation('C03/%s/%s/%s/deliver/mbap-ids/%s' % (framing, side, cname, pc), wit,
                      'tid/pid %r/%r' % (d.transaction_id, d.protocol_id), cfg)
    if framers.buffered(rx):
        acc.violation('C03/%s/%s/%s/deliver/residue/%s' % (framing, side, cname, pc), wit,
                      '%d bytes left in the receive buffer' % framers.buffered(rx), cfg)
    # the call shapes the library's own callers use: the unit as a scalar and no `single` keyword (clients,
    # transaction manager), the unit list and no `single` keyword
    for shape, args in (('scalar-unit', (unit,)), ('unit-list', ([unit],))):
        rx2 = framers.make(framing, side)
        got2 = []
        try:
            rx2.processIncomingPacket(pkt, got2.append, *args)
        except Exception as e:   # noqa
            acc.violation('C03/%s/%s/%s/deliver/raise:%s/%s' % (framing, side, cname, type(e).__name__, pc), dict(wit, call=shape),
                          'receiver called as processIncomingPacket(packet, callback, %s) raised %r' % (shape, e), cfg)
            continue
        if len(got2) != 1 or type(got2[0]) is not type(o):
            acc.violation('C03/%s/%s/%s/deliver/count/%s' % (framing, side, cname, pc), dict(wit, call=shape),
                          'receiver called as processIncomingPacket(packet, callback, %s) delivered %d messages' % (shape, len(got2)), cfg)


HOOKED = ('unit_id', 'function_code', 'transaction_id', 'protocol_id')


def _hooked(o, hook):
    """the same message object, every read of its ids and every encode() call announced to `hook` first (the points
    at which the thread building a packet from it can be pre-empted)"""
    cls = type(o)
    ns = {}
    for name in HOOKED:
        def get(self, _n=name):
            hook()
            return self.__dict__[_n] if _n in self.__dict__ else getattr(cls, _n)

        def put(self, v, _n=name):
            self.__dict__[_n] = v
        ns[name] = property(get, put)

    def encode(self):
        hook()
        return cls.encode(self)
    ns['encode'] = encode
    o.__class__ = type(cls.__name__, (cls,), ns)
    return o


def rebuild_cases(acc, framing, side, m, other):
    cname = bind.cls_name(m)
    cfg = '%s/%s/%s' % (framing, side, cname)
    unit, tid = 0x11, 0x0102

    def expect(o, u, t):
        raw = bind.pdu_bytes(o)
        exp = [adu.build(framing, u, raw, tid=t, pid=0)]
        if framing == 'binary':
            exp.append(adu.build(framing, u, raw, binary_crc='raw'))
        return exp
    # (a) the application edits a message it has sent and sends it again (other unit, next transaction, next address):
    # the second packet is the ADU of the message as it stands then
    acc.inc('evaluations')
    wit = dict(framing=framing, side=side, pdu=pdu.encode(m).hex(), rebuilt=True)
    try:
        fr = framers.make(framing, side)
        o = bind.to_obj(dict(m, unit=unit, tid=tid, pid=0))
        fr.buildPacket(o)
        o.unit_id, o.transaction_id = unit + 1, tid + 1
        for attr in ('address', 'value', 'read_address'):
            if isinstance(getattr(o, attr, None), int) and not isinstance(getattr(o, attr), bool) and getattr(o, attr) < 0xFF00:
                setattr(o, attr, getattr(o, attr) + 1)
        exp = expect(o, unit + 1, tid + 1)
        pkt = fr.buildPacket(o)
        if pkt not in exp:
            acc.violation('C03/%s/%s/%s/build/after-edit' % (framing, side, cname), wit,
                          'second build of the edited message %s expected %s' % (pkt.hex()[:80], exp[0].hex()[:80]), cfg)
    except Exception as e:   # noqa
        acc.violation('C03/%s/%s/%s/build/after-edit-raise:%s' % (framing, side, cname, type(e).__name__), wit, repr(e)[:100], cfg)
    # (b) two framers (two connections) build packets at the same time: the builder of one is pre-empted at its k-th
    # access to the message, for every k, while the other builds a whole packet
    count = [0]
    o = _hooked(bind.to_obj(dict(m, unit=unit, tid=tid, pid=0)), lambda: count.__setitem__(0, count[0] + 1))
    try:
        framers.make(framing, side).buildPacket(o)
    except Exception:   # noqa
        return
    total = count[0]
    for k in range(1, total + 1):
        acc.inc('evaluations')
        wit = dict(framing=framing, side=side, pdu=pdu.encode(m).hex(), preempted_at=k, other=pdu.encode(other).hex())
        fr_a, fr_b = framers.make(framing, side), framers.make(framing, side)
        ob = bind.to_obj(dict(other, unit=0x22, tid=0x0304, pid=0))
        seen = [0]
        res = {}

        def hook():
            seen[0] += 1
            if seen[0] == k:
                res['b'] = fr_b.buildPacket(ob)
        oa = _hooked(bind.to_obj(dict(m, unit=unit, tid=tid, pid=0)), hook)
        try:
            pa = fr_a.buildPacket(oa)
        except Exception as e:   # noqa
            acc.violation('C03/%s/%s/%s/build/concurrent-raise:%s' % (framing, side, cname, type(e).__name__), wit, repr(e)[:100], cfg)
            continue
        hook = None
        oa.__class__ = type(oa).__mro__[1]
        if pa not in expect(oa, unit, tid) or res.get('b') not in expect(ob, 0x22, 0x0304):
            acc.violation('C03/%s/%s/%s/build/concurrent' % (framing, side, cname), wit,
                          'pre-empted builder produced %s, the other %s' % (pa.hex()[:80], (res.get('b') or b'').hex()[:80]), cfg)


def shard_sweep(args):
    """every enumerated message of every class (all list lengths: exercises every RTU size rule) through each framing"""
    _, kind, fc, tier = args
    acc = Acc()
    side = 'req' if kind == 'req' else 'rsp'
    n = 0
    for m in gen.messages(kind, fc, 'quick'):
        if kind == 'exc' and not (m['fc'] in (1, 3, 0x10, 0x2B, 0x7F) and m['code'] < 16):
            continue
        if len(pdu.encode(m)) > 253:
            continue
        n += 1
        for framing in adu.FRAMINGS:
            if framing in ('ascii', 'binary', 'tls', 'tcp') and n % 7 and tier == 'quick':
                continue                      # the size rules only matter on RTU; the other framings get every 7th message
            one(acc, framing, side, m, 0x11, 0x1234, 0)
    acc.add('nontrivial', ('sweep', kind, fc))
    return acc


def shard(args):
    what = args[0]
    if what == 'sweep':
        return shard_sweep(args)
    acc = Acc()
    if what == 'frames':
        _, framing, side, tier = args
        ms = (catalog.REQUESTS + catalog.DELIM_REQUESTS) if side == 'req' else (catalog.RESPONSES + catalog.DELIM_RESPONSES)
        for i, m in enumerate(ms):
            for unit, tid, pid in id_space(framing, tier, heavy=(i % 5 == 0)):
                one(acc, framing, side, m, unit, tid, pid)
            acc.add('nontrivial', (framing, side, pdu.encode(m)))
        for i, m in enumerate(ms):
            rebuild_cases(acc, framing, side, m, ms[(i + 3) % len(ms)])
            one(acc, framing, side, m, 0x11, 0x0102, 0, debug=True)      # ... and with the library's debug logging switched on
        for m in (catalog.LARGE_REQUESTS if side == 'req' else catalog.LARGE_RESPONSES):
            for unit in (0, 1, 17, 0xFF):
                one(acc, framing, side, m, unit, 0xFFFF, 0)
            acc.add('nontrivial', (framing, side, pdu.encode(m)))
        if not acc.samples:
            acc.sample(dict(framing=framing, side=side, example=adu.build(framing, 1, pdu.encode(ms[2]), tid=1).hex()))
    else:
        _, lo, hi = args
        from pymodbus.utilities import computeCRC, computeLRC
        def chk(s):
            acc.inc('evaluations', 2)
            c = crc.crc16(s)
            want = ((c & 0xFF) << 8) | (c >> 8)      # computeCRC returns the register byte-swapped so that '>H' sends low byte first
            if computeCRC(s) != want:
                acc.violation('C03/checksum/crc', dict(data=s.hex()), 'computeCRC=%04x reference(low byte first)=%04x' % (computeCRC(s), want))
            if computeLRC(s) != crc.lrc(s):
                acc.violation('C03/checksum/lrc', dict(data=s.hex()), 'computeLRC=%02x reference=%02x' % (computeLRC(s), crc.lrc(s)))
        if lo == 0:
            chk(b'')
            structured = [bytes(range(n)) for n in (3, 8, 64, 256)] + [b'\xff' * 33, b'\x00' * 17,
                          bytes.fromhex('01030000000A'), bytes.fromhex('110300060003')] + \
                         [pdu.encode(m) for m in catalog.REQUESTS[:12]]
            for s in structured:
                for pos in range(len(s)):
                    for v in (0, 1, 0x7F, 0x80, 0xFF, s[pos] ^ 1):
                        chk(s[:pos] + bytes([v]) + s[pos + 1:])
        for a in range(lo, hi):
            chk(bytes([a]))
            for b in range(256):
                chk(bytes([a, b]))
        acc.add('nontrivial', ('crc', lo))
    return acc


def run(tier, seed):
    shards = [('frames', f, s, tier) for f in adu.FRAMINGS for s in ('req', 'rsp')]
    shards += [('sums', lo, lo + 32) for lo in range(0, 256, 32)]
    shards += [('sweep', k, fc, tier) for k, fc in gen.CLASSES]
    acc = par.run_shards(shard, shards)
    return dict(acc=acc, level=LEVEL,
                coverage=dict(
                    rule='one case = one (framing, direction, message, unit, tid, pid) build + whole-packet delivery to a fresh '
                         'receiver, one rebuild of an edited message, one build pre-empted at one access to the message while another framer builds, or one checksum comparison; non-trivial = distinct (framing, direction, PDU) and checksum shards',
                    bounds='all unit ids 0..255; tcp: 26 boundary transaction ids x {0,1,255} units x protocol ids {0,1,0xFFFF}'
                           + ('; all 65536 transaction ids for every 5th message' if tier == 'thorough' else '')
                           + '; every message of the C01 enumeration (all list lengths) through RTU (and every 7th, thorough: every, through the other framings), unit 0x11; checksums: every byte string of length <= 2 (65793) and 6 single-byte variations per position of 24 structured strings'),
                assumptions=['ref/adu.py transcribes the MBAP / RTU / ASCII layouts of the Modbus specifications',
                             'binary framing is defined only by the framer docstring; CRC accepted over escaped or raw body'])


def replay(w):
    acc = Acc()
    if 'data' in w:
        from pymodbus.utilities import computeCRC, computeLRC
        s = bytes.fromhex(w['data'])
        c = crc.crc16(s)
        bad = computeCRC(s) != (((c & 0xFF) << 8) | (c >> 8)) or computeLRC(s) != crc.lrc(s)
        return bad, 'computeCRC=%04x computeLRC=%02x reference crc=%04x lrc=%02x' % (computeCRC(s), computeLRC(s), c, crc.lrc(s))
    m = pdu.decode(w['side'], bytes.fromhex(w['pdu']))
    if 'rebuilt' in w or 'preempted_at' in w:
        other = pdu.decode(w['side'], bytes.fromhex(w['other'])) if 'other' in w else m
        rebuild_cases(acc, w['framing'], w['side'], m, other)
        vs = [v for v in acc.violations if v['witness'] == w]
        return bool(vs), '\n'.join('%s: %s' % (v['sig'], v['msg']) for v in vs) or 'no violation'
    one(acc, w['framing'], w['side'], m, w['unit'], w['tid'], w['pid'], debug=bool(w.get('debug_logging')))
    return bool(acc.violations), '\n'.join('%s: %s' % (v['sig'], v['msg']) for v in acc.violations) or 'no violation'
