"""C05 -- invalid requests get the right exception and change nothing.

(a) From every datastore state reached by the C04 search (non-initial states
    included) and every layout: each rejectable request (quantities across every
    limit, addresses across every block boundary, byte counts contradicting the
    quantity, FC23 with each range invalid in turn) is decoded, executed and
    encoded by the real code; expected exception code from ref/datamodel.py
    (01 -> 03 -> 02 -> 04 order) and the four-table dump must not change.
(b) limit sweep on blocks larger than every limit (the limit, not the block, decides);
    all 65536 single-coil value words; every unassigned function code.
(c) datastores whose validate/getValues/setValues raise, through the execute
    wrappers of the sync, asyncio and Twisted front-ends -> exception 04.
"""
import itertools
import types

from mc.acc import Acc
from mc import par, states
from ref import pdu, datamodel
from harness import stores, framers, bind
from checks import c04

ID = 'C05'
LEVEL = 'model_checking'
LIM = {1: 2000, 2: 2000, 3: 125, 4: 125, 15: 1968, 16: 123}


def invalid_requests(lay):
    """requests that the reference rejects in at least the initial state"""
    out = []
    R = lambda **k: out.append(dict(kind='req', **k))   # noqa: E731
    pa = sorted(set(b - lay.off for t in stores.TABLES for b in lay.block_addresses(t) if b - lay.off >= 0))
    lo, hi = pa[0], pa[-1]
    edge = sorted(set(a for a in (lo - 1, lo, hi - 1, hi, hi + 1, 65535) if 0 <= a <= 65535))
    holes = [a for a in range(lo, hi + 1) if a not in pa]
    for fc in (1, 2, 3, 4):
        for a in edge + holes:
            for q in (1, 2, 3):
                R(fc=fc, address=a, count=q)
        for q in (0, LIM[fc] + 1, 0xFFFF):
            for a in (lo, 65535):
                R(fc=fc, address=a, count=q)
    for a in edge + holes:
        R(fc=5, address=a, value=0xFF00)
        R(fc=6, address=a, value=0x5A5A)
        for am, om in ((0x00F2, 0x0025), (0xFFFF, 0x0000), (0xFFFF, 0x0025), (0x0000, 0xFFFF)):
            R(fc=22, address=a, and_mask=am, or_mask=om)
        for n in (1, 2, 3):
            R(fc=15, address=a, count=n, byte_count=1, bits=[True] * n)
            R(fc=16, address=a, count=n, byte_count=2 * n, registers=[0x7700 + i for i in range(n)])
    for v in (1, 0x00FF, 0xFF01, 0xFFFF, 0x0100):
        R(fc=5, address=lo, value=v)
    # byte count contradicting the quantity (the PDU itself is length-consistent)
    for n, bc in ((2, 2), (9, 1), (1, 0), (8, 2), (0, 0), (3, 255)):
        data_bits = [True] * (8 * bc)
        R(fc=15, address=lo, count=n, byte_count=bc, bits=data_bits)
    # ... and a byte count that contradicts both the quantity and the amount of data that follows
    for n, bc, nbytes in ((16, 1, 2), (9, 1, 2), (16, 3, 2), (8, 2, 1), (24, 2, 3), (1, 2, 1)):
        R(fc=15, address=lo, count=n, byte_count=bc, bits=[True, False] * (4 * nbytes))
    for n, bc, nregs in ((2, 2, 2), (2, 6, 2), (1, 4, 1), (3, 4, 3)):
        R(fc=16, address=lo, count=n, byte_count=bc, registers=[0x7900 + i for i in range(nregs)])
    for n, bc in ((1, 4), (2, 2), (1, 0), (0, 0), (2, 6), (1, 254)):
        R(fc=16, address=lo, count=n, byte_count=bc, registers=[0x7700 + i for i in range(bc // 2)])
    # FC23: each range invalid in turn, each quantity outside its limit, byte count mismatch
    for ra, rq, wa, wn in itertools.product([lo, hi, hi + 1, 65535], [1, 2], [lo, hi, hi + 1, 65535], [1, 2]):
        R(fc=23, read_address=ra, read_count=rq, write_address=wa, write_count=wn, write_byte_count=2 * wn,
          write_registers=[0x8800 + i for i in range(wn)])
    for rq, wn, bc in ((0, 1, 2), (126, 1, 2), (0xFFFF, 1, 2), (1, 0, 0), (1, 122, 244), (1, 1, 4), (1, 2, 2), (1, 1, 0)):
        R(fc=23, read_address=lo, read_count=rq, write_address=lo, write_count=wn, write_byte_count=bc,
          write_registers=[0x8800 + i for i in range(bc // 2)])
    return out


def guard_of(m, code):
    fc = m['fc']
    if code == 3:
        if fc == 5:
            return 'coil-value'
        if fc in (15, 16) and m['byte_count'] != ((m['count'] + 7) // 8 if fc == 15 else 2 * m['count']):
            return 'byte-count'
        if fc == 23 and m['write_byte_count'] != 2 * m['write_count']:
            return 'byte-count'
        return 'quantity'
    if code == 2:
        return 'address'
    return 'code%d' % code


def judge(acc, lay, state, hist, m, raw, sigtail=''):
    ref = lay.ref(state)
    want_m = datamodel.execute(ref, m)
    if want_m['kind'] != 'exc':
        return False
    want = pdu.encode(want_m)
    ctx = lay.build(state)
    before = lay.dump(ctx)
    wit = dict(layout=lay.name, history=hist, request=raw.hex())
    guard = guard_of(m, want_m['code'])
    try:
        got = c04.serve(ctx, raw)
        obs = None
    except Exception as e:   # noqa
        got, obs = None, 'raise:' + type(e).__name__
    if got is None and obs is None:
        obs = 'not-decoded'
    after = lay.dump(ctx)
    if obs is None and got != want:
        if got[0] & 0x80:
            obs = 'ex%02d' % got[1]
        else:
            obs = 'normal'
    if obs is not None:
        acc.violation('C05/fc%02d/ex%02d/%s/%s' % (m['fc'], want_m['code'], obs, guard), wit,
                      'expected exception %02d (%s), observed %s (%s)' % (want_m['code'], guard, obs, got.hex() if got else got), lay.name)
    if after != before:
        t, what = stores.diff_tables(after, before)
        acc.violation('C05/fc%02d/ex%02d/store-changed/%s' % (m['fc'], want_m['code'], guard), wit,
                      'the request must be rejected, yet table %s changed' % t, lay.name)
    acc.add('rejected_kinds', (m['fc'], want_m['code'], guard))
    return True


def shard_states(args):
    tier, idx = args
    acc = Acc()
    lay = stores.layouts()[idx]
    full, red = c04.requests(False), c04.requests(True)
    inv = [(m, pdu.encode(m)) for m in invalid_requests(lay)]
    depth = 1 if tier == 'quick' else 2
    # reach the states with the real code (same transition function as C04), remember a history per state
    raws = [(m, pdu.encode(m)) for m in (full if tier == 'quick' else red + full[:60])]
    init = lay.initial_state()
    hist_of = {init: []}
    frontier = [init]
    for d in range(depth):
        nxt = []
        for s in frontier:
            for m, raw in raws:
                ctx = lay.build(s)
                try:
                    c04.serve(ctx, raw)
                except Exception:   # noqa
                    continue
                ns = lay.dump(ctx)
                if ns not in hist_of:
                    hist_of[ns] = hist_of[s] + [raw.hex()]
                    nxt.append(ns)
        frontier = nxt
    for s, h in hist_of.items():
        for m, raw in inv:
            acc.inc('transitions')
            if judge(acc, lay, s, h, m, raw):
                acc.inc('rejections')
    acc.inc('states', len(hist_of))
    acc.add('nontrivial', lay.name)
    if not acc.samples:
        acc.sample(dict(layout=lay.name, states=len(hist_of), invalid_requests=len(inv), example=inv[0][1].hex()))
    return acc


def shard_limits(args):
    """blocks bigger than every limit: the limit decides, not the block"""
    acc = Acc()
    zero = args[1]
    lay = stores.Layout(('seq', 0 if zero else 1, 2004), zero, False)
    st = lay.initial_state()
    for fc in (1, 2, 3, 4):
        for q in (0, 1, LIM[fc] - 1, LIM[fc], LIM[fc] + 1, 0x7FFF, 0xFFFF):
            for a in (0, 1, 3):
                m = dict(kind='req', fc=fc, address=a, count=q)
                acc.inc('transitions')
                check_any(acc, lay, st, m)
    for q in (1, 1967, 1968, 1969, 1976, 2000, 2001, 2040):      # up to the largest quantity whose byte count fits its field
        for a in (0, 3):
            m = dict(kind='req', fc=15, address=a, count=q, byte_count=(q + 7) // 8, bits=[True] * q)
            acc.inc('transitions')
            check_any(acc, lay, st, m)
    # byte count contradicting the quantity where the block is big enough for either reading
    for n, bc in ((9, 1), (17, 2), (8, 2), (1, 2), (16, 1), (0, 1)):
        m = dict(kind='req', fc=15, address=0, count=n, byte_count=bc, bits=[True] * (8 * bc))
        acc.inc('transitions')
        check_any(acc, lay, st, m)
    for n, bc in ((1, 4), (2, 6), (3, 2), (0, 2)):
        m = dict(kind='req', fc=16, address=0, count=n, byte_count=bc, registers=[0x7700 + i for i in range(bc // 2)])
        acc.inc('transitions')
        check_any(acc, lay, st, m)
    for q in (1, 122, 123, 124, 125, 127):
        m = dict(kind='req', fc=16, address=0, count=q, byte_count=2 * q, registers=list(range(q)))
        acc.inc('transitions')
        check_any(acc, lay, st, m)
    for rq, wn in ((1, 1), (125, 121), (125, 1), (1, 121), (126, 1), (0, 1), (1, 122), (1, 125), (1, 127), (125, 122)):
        m = dict(kind='req', fc=23, read_address=0, read_count=rq, write_address=3, write_count=wn,
                 write_byte_count=2 * wn, write_registers=list(range(wn)))
        acc.inc('transitions')
        check_any(acc, lay, st, m)
    if zero:
        # all 65536 single-coil value words
        small = stores.Layout(('seq', 0, 6), True, False)
        sst = small.initial_state()
        for v in range(0x10000):
            m = dict(kind='req', fc=5, address=2, value=v)
            acc.inc('transitions')
            check_any(acc, small, sst, m)
        lay, st = small, sst
        # every function code the server does not implement -> exception 01
        from ref.pdu import SUPPORTED
        for fc in range(0, 128):
            if fc in SUPPORTED:
                continue
            for body in (b'', b'\x00\x01\x00\x01'):
                raw = bytes([fc]) + body
                acc.inc('transitions')
                ctx = lay.build(st)
                before = lay.dump(ctx)
                try:
                    got = c04.serve(ctx, raw)
                except Exception as e:   # noqa
                    got = ('raise:' + type(e).__name__).encode()
                if got != bytes([fc | 0x80, 1]):
                    acc.violation('C05/fc%02d/ex01/%s/unknown-function' % (fc, 'other'),
                                  dict(layout=lay.name, history=[], request=raw.hex()),
                                  'function code %d: response %r, expected exception 01' % (fc, got), lay.name)
                if lay.dump(ctx) != before:
                    acc.violation('C05/fc%02d/ex01/store-changed/unknown-function' % fc,
                                  dict(layout=lay.name, history=[], request=raw.hex()), 'store changed', lay.name)
    acc.add('nontrivial', lay.name + '/limits')
    return acc


def check_any(acc, lay, st, m):
    """valid or invalid: the response must equal the reference; when it is an exception the store is unchanged"""
    raw = pdu.encode(m)
    if judge(acc, lay, st, [], m, raw):
        return
    ctx = lay.build(st)
    ref = lay.ref(st)
    want = pdu.encode(datamodel.execute(ref, m))
    try:
        got = c04.serve(ctx, raw)
    except Exception as e:   # noqa
        got = ('raise:' + type(e).__name__).encode()
    if got != want:
        acc.violation('C05/fc%02d/accept/%s/limit' % (m['fc'], 'rejected' if got[:1] and got[0] & 0x80 else 'wrong'),
                      dict(layout=lay.name, history=[], request=raw.hex()),
                      'a request inside every limit got %s, reference %s' % (got.hex()[:40], want.hex()[:40]), lay.name)


class Failing(object):
    """slave context whose chosen operation raises"""
    zero_mode = True

    def __init__(self, which, exc='RuntimeError'):
        self.which = which
        self.exc = exc
        self.blk = dict((a, 0) for a in range(10))

    def _f(self, name):
        if name == self.which:
            if self.exc in ('NotImplementedException', 'ParameterException', 'ModbusIOException'):
                import pymodbus.exceptions as pe          # what an unfinished or custom datastore raises
                raise getattr(pe, self.exc)('datastore failure injected in ' + name)
            if self.exc.endswith('()'):
                raise dict(RuntimeError=RuntimeError, TimeoutError=TimeoutError, NotImplementedError=NotImplementedError)[self.exc[:-2]]()   # no message
            raise dict(RuntimeError=RuntimeError, KeyError=KeyError, IOError=IOError)[self.exc]('datastore failure injected in ' + name)

    def validate(self, fx, address, count=1):
        self._f('validate')
        return all((address + i) in self.blk for i in range(count))

    def getValues(self, fx, address, count=1):
        self._f('getValues')
        return [self.blk[address + i] for i in range(count)]

    def setValues(self, fx, address, values):
        self._f('setValues')
        for i, v in enumerate(values):
            self.blk[address + i] = v


class FailingBlock(Failing):
    """the same failure one level down: a data block inside a real ModbusSlaveContext"""

    def validate(self, address, count=1):
        return Failing.validate(self, None, address, count)

    def getValues(self, address, count=1):
        return Failing.getValues(self, None, address, count)

    def setValues(self, address, values):
        return Failing.setValues(self, None, address, values)


def failing_store(level, which, exc):
    if level == 'context':
        return Failing(which, exc)
    from pymodbus.datastore import ModbusSlaveContext
    return ModbusSlaveContext(di=FailingBlock(which, exc), co=FailingBlock(which, exc), hr=FailingBlock(which, exc),
                              ir=FailingBlock(which, exc), zero_mode=True)


EXCS = ('RuntimeError', 'NotImplementedException', 'ParameterException', 'ModbusIOException', 'KeyError', 'IOError',
        'RuntimeError()', 'TimeoutError()', 'NotImplementedError()')


def frontend_execute(front, ctx, request, ignore=False):
    """drive the execute wrapper of one front-end with a stub server; returns sent messages"""
    sent = []
    server_ctx = {1: ctx}

    class SC(dict):
        single = False

        def slaves(self):
            return list(self.keys())

        def __getitem__(self, k):
            from pymodbus.exceptions import NoSuchSlaveException
            if k not in self:
                raise NoSuchSlaveException(k)
            return dict.__getitem__(self, k)
    sc = SC(server_ctx)
    ns = types.SimpleNamespace(context=sc, store=sc, broadcast_enable=False, ignore_missing_slaves=ignore,
                               control=types.SimpleNamespace(ListenOnly=False, Counter=types.SimpleNamespace(BusMessage=0)))
    if front == 'sync':
        from pymodbus.server.sync import ModbusConnectedRequestHandler as H
        h = H.__new__(H)
        h.server = ns
        h.send = sent.append
        h.execute(request)
    elif front == 'asyncio':
        from pymodbus.server.async_io import ModbusConnectedRequestHandler as H
        h = H.__new__(H)
        h.server = ns
        h.send = lambda m, *a: sent.append(m)
        h.execute(request)
    else:
        from pymodbus.server.asynchronous import ModbusTcpProtocol as H
        h = H.__new__(H)
        h.factory = ns
        h._send = sent.append
        h._execute(request)
    return sent


def shard_failure(args):
    acc = Acc()
    front = args[1]
    reqs = [m for m in c04.requests(True) if m.get('address', m.get('read_address', 0)) in (0, 2)]
    for which in ('validate', 'getValues', 'setValues'):
        for m in reqs:
            uses = {'validate'}
            if m['fc'] in (1, 2, 3, 4, 5, 6, 22, 23):
                uses.add('getValues')
            if m['fc'] in (5, 6, 15, 16, 22, 23):
                uses.add('setValues')
            if which not in uses:
                continue
            raw = pdu.encode(m)
            for exc, ignore, level in [(e, i, 'context') for e in EXCS for i in (False, True)] + \
                                      [(e, False, 'block') for e in ('RuntimeError', 'KeyError', 'IOError', 'ParameterException')]:
                req = framers.decoder('req').decode(raw)
                req.unit_id = 1
                req.transaction_id = 0x55
                acc.inc('transitions')
                wit = dict(front=front, raises=which, request=raw.hex())
                if exc != 'RuntimeError' or ignore:
                    wit.update(exc=exc, ignore=ignore)
                if level != 'context':
                    wit.update(exc=exc, level=level)
                tag = '' if exc == 'RuntimeError' and not ignore else '/%s%s' % (exc, '+ignore-missing' if ignore else '')
                if level != 'context':
                    tag = '/%s/in-block' % exc
                try:
                    sent = frontend_execute(front, failing_store(level, which, exc), req, ignore)
                except Exception as e:   # noqa
                    acc.violation('C05/fc%02d/ex04/raise:%s/%s%s' % (m['fc'], type(e).__name__, front, tag), wit,
                                  'the execute wrapper let %r escape' % e, front)
                    continue
                got = [bind.pdu_bytes(x) for x in sent]
                if got == [bytes([m['fc'] | 0x80, 4])] and (sent[0].transaction_id != 0x55 or sent[0].unit_id != 1):
                    acc.violation('C05/fc%02d/ex04/ids-not-echoed/%s%s' % (m['fc'], front, tag), wit,
                                  'exception 04 sent with transaction id %r unit %r (request 0x55 / 1)' % (sent[0].transaction_id, sent[0].unit_id), front)
                if got != [bytes([m['fc'] | 0x80, 4])]:
                    acc.violation('C05/fc%02d/ex04/%s/%s%s' % (m['fc'], 'no-response' if not got else 'other', front, tag), wit,
                                  'datastore %s raised %s; responses %r' % (which, exc, [g.hex() for g in got]), front)
    acc.add('nontrivial', 'failure/' + front)
    return acc


def shard(args):
    return {'states': shard_states, 'limits': shard_limits, 'failure': shard_failure}[args[0]](args[1:] if args[0] == 'states' else args)


def run(tier, seed):
    n = len(stores.layouts())
    shards = [('states', tier, i) for i in range(n)] + [('limits', False), ('limits', True)] + \
             [('failure', f) for f in ('sync', 'asyncio', 'twisted')]
    acc = par.run_shards(shard, shards)
    acc.n['traces_validated_against_impl'] = acc.n.get('transitions', 0)
    acc.n['evaluations'] = acc.n.get('transitions', 0)
    he = None
    kinds = acc.sets.get('rejected_kinds', set())
    if len(set(c for _, c, _ in kinds)) < 2 or acc.n.get('rejections', 0) < 1000:
        he = 'vacuous: too few rejected requests / exception codes'
    return dict(acc=acc, level=LEVEL, harness_error=he,
                coverage=dict(
                    rule='state = dump of the four tables (every state the C04 transition function reaches within the depth bound); '
                         'transition = one rejectable request through decode/execute/encode; non-trivial = layouts + sweeps',
                    rejected_kinds=sorted('fc%02d/ex%02d/%s' % k for k in kinds),
                    bounds='states to depth %s from each of 16 layouts; per layout ~%d rejectable requests (quantities 0, limit+1, 65535; addresses '
                           'start-1, start, end-1, end, end+1, 65535 and holes; byte counts contradicting the quantity; FC23 each range invalid in turn); '
                           'limit sweep on 2004-cell blocks for every function; all 65536 single-coil words; all unassigned function codes; '
                           'raising datastores through the sync/asyncio/Twisted execute wrappers'
                           % ('1' if tier == 'quick' else '2', len(invalid_requests(stores.layouts()[0])))),
                assumptions=['exception priority 01 -> 03 -> 02 -> 04 as in the state diagrams of V1.1b3',
                             'PDUs whose length contradicts their fields (truncated data) are C12 matter, not C05'])


def replay(w):
    acc = Acc()
    raw = bytes.fromhex(w['request'])
    if 'front' in w:
        req = framers.decoder('req').decode(raw)
        req.unit_id, req.transaction_id = 1, 0x55
        try:
            sent = [bind.pdu_bytes(x).hex() for x in frontend_execute(w['front'], failing_store(w.get('level', 'context'), w['raises'], w.get('exc', 'RuntimeError')), req, w.get('ignore', False))]
        except Exception as e:   # noqa
            return True, 'escaped: %r' % e
        return sent != [bytes([raw[0] | 0x80, 4]).hex()], 'responses %r' % sent
    lays = [l for l in stores.layouts() if l.name == w['layout']] or \
           [stores.Layout(('seq', z, 2004), z == 0, False) for z in (0, 1) if stores.Layout(('seq', z, 2004), z == 0, False).name == w['layout']]
    lay = lays[0]
    s = lay.initial_state()
    for hx in w['history']:
        ctx = lay.build(s)
        c04.serve(ctx, bytes.fromhex(hx))
        s = lay.dump(ctx)
    try:
        m = pdu.decode('req', raw)
        check_any(acc, lay, s, m)
    except pdu.Malformed:
        ctx = lay.build(s)
        got = c04.serve(ctx, raw)
        return got != bytes([raw[0] | 0x80, 1]), 'response %r' % got
    return bool(acc.violations), '\n'.join('%s: %s' % (v['sig'], v['msg']) for v in acc.violations) or 'no violation'
