"""C04 -- the server executes data-access requests as a Modbus register file.

Explicit-state search (E1, snapshot mode) from every datastore layout: a state is
the dump of all four tables; every transition decodes one reference-built request
PDU with the real ServerDecoder, executes it against a real ModbusSlaveContext
holding exactly that state and encodes the response -- in lock-step with
ref/datamodel.py.  After every step the response bytes and the full four-table
dump must equal the reference's.
"""
import itertools

from mc.acc import Acc
from mc import par, states
from ref import pdu, datamodel
from harness import stores, framers, bind

ID = 'C04'
LEVEL = 'model_checking'
ADDR = [0, 1, 2, 4, 5]
VALS = [0, 1, 0xA5A5, 0xFFFF]
MASKS = [0, 0x00F2, 0xFF00, 0xFFFF]


def requests(reduced=False):
    out = []
    R = lambda **k: out.append(dict(kind='req', **k))   # noqa: E731
    addr = ADDR if not reduced else [0, 2, 5]
    for fc in (1, 2, 3, 4):
        for a in addr:
            for q in ((1, 2, 3) if not reduced else (1, 3)):
                R(fc=fc, address=a, count=q)
    for a in addr:
        for v in (0, 0xFF00):
            R(fc=5, address=a, value=v)
        for v in (VALS if not reduced else [0xA5A5]):
            R(fc=6, address=a, value=v)
    for a in addr:
        for n in ((1, 2, 3) if not reduced else (2,)):
            for bits in itertools.product((False, True), repeat=n):
                if reduced and bits not in ((True, False), (False, True)):
                    continue
                R(fc=15, address=a, count=n, byte_count=1, bits=list(bits))
        for n in ((1, 2, 3) if not reduced else (2,)):
            for base in ((0x3300, 0xFFFF) if not reduced else (0x3300,)):
                R(fc=16, address=a, count=n, byte_count=2 * n, registers=[(base + i) & 0xFFFF for i in range(n)])
    for a in addr:
        for am, om in (itertools.product(MASKS, repeat=2) if not reduced else [(0x00F2, 0x0025), (0xFF00, 0x00FF)]):
            R(fc=22, address=a, and_mask=am, or_mask=om)
    R(fc=22, address=4, and_mask=0x00F2, or_mask=0x0025)      # the specification's own example
    for ra, rq, wa, wn in itertools.product([0, 1, 4], [1, 3], [0, 2, 5], [1, 2]):
        if reduced and (ra, wn) not in ((1, 2), (0, 1)):
            continue
        R(fc=23, read_address=ra, read_count=rq, write_address=wa, write_count=wn, write_byte_count=2 * wn,
          write_registers=[(0x4400 + wa + i) for i in range(wn)])
    return out


def serve(ctx, raw):
    """decode -> execute -> encode through the real code; returns response PDU bytes"""
    req = framers.decoder('req').decode(raw)
    if req is None:
        return None
    rsp = req.execute(ctx)
    return bind.pdu_bytes(rsp)


def explore_layout(acc, lay, depth, reqs, reqs_deep, checker=None):
    raws = [(m, pdu.encode(m)) for m in reqs]
    raws_deep = [(m, pdu.encode(m)) for m in reqs_deep]
    depth_of = {}
    init = lay.initial_state()
    depth_of[init] = 0

    def events(s):
        lst = raws if depth_of.get(s, 0) < 2 else raws_deep
        return range(len(lst))

    def step(s, i):
        lst = raws if depth_of.get(s, 0) < 2 else raws_deep
        m, raw = lst[i]
        ctx = lay.build(s)
        ref = lay.ref(s)
        want = pdu.encode(datamodel.execute(ref, m))
        want_dump = lay.dump_ref(ref)
        try:
            got = serve(ctx, raw)
            err = None
        except Exception as e:   # noqa
            got, err = None, e
        ns = lay.dump(ctx)
        if ns not in depth_of:
            depth_of[ns] = depth_of[s] + 1
        return ns, (m, raw, got, want, want_dump, err)

    def on_edge(s, i, ns, obs, path):
        m, raw, got, want, want_dump, err = obs
        lst_of = lambda st: (raws if depth_of.get(st, 0) < 2 else raws_deep)   # noqa: E731

        def hist():
            h, cur = [], init
            # re-walk the path to translate indices into PDUs
            for idx in path(s):
                h.append(lst_of(cur)[idx][1].hex())
                cur = step_state(cur, idx)
            return h + [raw.hex()]

        def step_state(cur, idx):
            mm, rr = lst_of(cur)[idx]
            c = lay.build(cur)
            try:
                serve(c, rr)
            except Exception:   # noqa
                pass
            return lay.dump(c)
        fc = m['fc']
        if err is not None:
            acc.violation('C04/fc%02d/response/%s/raise:%s' % (fc, lay.cls, type(err).__name__),
                          dict(layout=lay.name, history=hist()), repr(err)[:100], lay.name)
        elif got != want:
            kind = 'exception-for-valid' if (got and got[0] & 0x80 and not want[0] & 0x80) else \
                   ('normal-for-invalid' if (got and want[0] & 0x80 and not got[0] & 0x80) else 'bytes')
            acc.violation('C04/fc%02d/response/%s/%s' % (fc, lay.cls, kind), dict(layout=lay.name, history=hist()),
                          'response %s, reference %s' % (got.hex() if got else got, want.hex()), lay.name)
        if ns != want_dump:
            t, what = stores.diff_tables(ns, want_dump)
            acc.violation('C04/fc%02d/store/%s/table-%s-%s' % (fc, lay.cls, t, what), dict(layout=lay.name, history=hist()),
                          'datastore after the request differs from the reference in table %s (%s)' % (t, what), lay.name)
        if want[0] & 0x80 == 0:
            acc.inc('normal_responses')
        if checker:
            checker(s, m, raw, got, want, ns)

    st, _ = states.bfs_snapshot([init], events, step, on_edge=on_edge, max_depth=depth)
    acc.inc('states', st.states)
    acc.inc('transitions', st.transitions)
    acc.add('nontrivial', lay.name)
    if st.closed:
        acc.inc('closed_searches')
    if len(acc.samples) < 1:
        acc.sample(dict(layout=lay.name, states=st.states, transitions=st.transitions, depth=depth,
                        first_requests=[r.hex() for _, r in raws[:4]]))
    return list(depth_of)


class FullTable(dict):
    """reference image of a table left at its default: every address 0..65535 exists and holds 0"""

    def __contains__(self, a):
        return 0 <= a <= 65535

    def __getitem__(self, a):
        return dict.get(self, a, 0)


def shard_defaults(args):
    """contexts built by the REAL constructor with some tables left at their default: every table is its own
    65536-cell block, and a second context built the same way is unaffected by writes to the first"""
    from pymodbus.datastore import ModbusSequentialDataBlock, ModbusSlaveContext
    acc = Acc()
    tabs = stores.TABLES
    writes = [dict(kind='req', fc=5, address=3, value=0xFF00), dict(kind='req', fc=6, address=3, value=0x0666),
              dict(kind='req', fc=15, address=2, count=3, byte_count=1, bits=[True, True, True]),
              dict(kind='req', fc=16, address=2, count=3, byte_count=6, registers=[0x1601, 0x1602, 0x1603]),
              dict(kind='req', fc=22, address=3, and_mask=0x0000, or_mask=0x2222),
              dict(kind='req', fc=23, read_address=2, read_count=3, write_address=3, write_count=1, write_byte_count=2, write_registers=[0x2323])]
    reads = [dict(kind='req', fc=fc, address=2, count=3) for fc in (1, 2, 3, 4)]
    for mask in itertools.product((False, True), repeat=4):
        explicit = [t for t, e in zip(tabs, mask) if e]

        def build():
            kw = {}
            for t in explicit:
                init = [bool(i % 2) for i in range(8)] if t in stores.BITS else [0x4000 + i for i in range(8)]
                kw[stores.KW[t]] = ModbusSequentialDataBlock(0, init)
            return ModbusSlaveContext(zero_mode=True, **kw)

        def ref():
            t = {}
            for tb in tabs:
                if tb in explicit:
                    t[tb] = dict((i, (bool(i % 2) if tb in stores.BITS else 0x4000 + i)) for i in range(8))
                else:
                    t[tb] = FullTable()
            return datamodel.Store(t)
        name = 'defaults/explicit=' + (''.join(explicit) or 'none')
        for w in writes:
            a, b = build(), build()
            ra, rb = ref(), ref()
            seq = [('a', w)] + [(who, r) for r in reads for who in ('a', 'b')]
            for who, m in seq:
                ctx, rf = (a, ra) if who == 'a' else (b, rb)
                want = pdu.encode(datamodel.execute(rf, m))
                try:
                    got = serve(ctx, pdu.encode(m))
                except Exception as e:   # noqa
                    got = ('raise:' + type(e).__name__).encode()
                acc.inc('transitions')
                if got != want:
                    what = 'other-context-affected' if who == 'b' else ('table-aliasing' if m['fc'] in (1, 2, 3, 4) else 'bytes')
                    acc.violation('C04/fc%02d/response/default-tables/%s' % (w['fc'], what),
                                  dict(layout=name, write=pdu.encode(w).hex(), then=pdu.encode(m).hex(), on=who),
                                  'after %s on context a, %s on context %s answered %s, reference %s'
                                  % (pdu.encode(w).hex(), pdu.encode(m).hex(), who, got.hex() if isinstance(got, bytes) else got, want.hex()), name)
        acc.add('nontrivial', name)
    acc.inc('states', 16)
    return acc


def wide_requests():
    """every quantity 1..41 on 40-cell tables (bit counts around every multiple of 8, register counts past the table)"""
    out = []
    R = lambda **k: out.append(dict(kind='req', **k))   # noqa: E731
    for q in range(1, 42):
        for a in (0, 1, 7):
            for fc in (1, 2, 3, 4):
                R(fc=fc, address=a, count=q)
            for pat in (lambda i: i % 2 == 0, lambda i: True, lambda i: i % 3 == 0):
                R(fc=15, address=a, count=q, byte_count=(q + 7) // 8, bits=[pat(i) for i in range(q)])
            R(fc=16, address=a, count=q, byte_count=2 * q, registers=[0x5000 + 64 * a + i for i in range(q)])
    for rq in (1, 8, 16, 40):
        for wn in range(1, 13):
            for ra, wa in ((0, 0), (3, 30), (30, 3)):
                R(fc=23, read_address=ra, read_count=rq, write_address=wa, write_count=wn, write_byte_count=2 * wn,
                  write_registers=[0x6000 + i for i in range(wn)])
    return out


def shard(args):
    if args[0] == 'defaults':
        return shard_defaults(args)
    if args[0] == 'wide':
        acc = Acc()
        reqs = wide_requests()
        explore_layout(acc, stores.wide_layouts()[args[1]], 1, reqs, reqs)
        return acc
    tier, idx = args
    acc = Acc()
    lay = stores.layouts()[idx]
    full, red = requests(False), requests(True)
    depth = 2 if tier == 'quick' else 3
    explore_layout(acc, lay, depth, full, red)
    return acc


def run(tier, seed):
    n = len(stores.layouts())
    acc = par.run_shards(shard, [(tier, i) for i in range(n)] + [('defaults',), ('wide', 0), ('wide', 1)])
    acc.n['traces_validated_against_impl'] = acc.n.get('transitions', 0)
    acc.n['evaluations'] = acc.n.get('transitions', 0)
    he = None if acc.n.get('normal_responses', 0) > 1000 else 'vacuous: too few accepted requests'
    return dict(acc=acc, level=LEVEL, harness_error=he,
                coverage=dict(
                    rule='state = dump of the four tables; transition = one request decoded, executed and encoded by the real code '
                         'on a context rebuilt from the state, compared byte-for-byte and cell-for-cell with the reference; '
                         'non-trivial = layouts explored',
                    requests=len(requests(False)), requests_reduced=len(requests(True)),
                    bounds='16 layouts (sequential (start,size) (0,6) (1,6) (3,4); sparse {1,2,3,5,6}; zero-mode on/off; tables separate/shared); '
                           'request alphabet FC 1-6,15,16,22,23, addresses %r, quantities 1-3, values %r, every coil pattern of length <= 3, '
                           'mask pairs %r^2, FC23 with overlapping ranges; histories to depth %s; plus every quantity 1..41 of FC 1-4, 15, 16 (and FC23 read 1/8/16/40 x write 1..12) on two 40-cell layouts from the initial state'
                           % (ADDR, VALS, MASKS, '2 over the full alphabet' if tier == 'quick'
                              else '2 over the full alphabet and depth 3 over the reduced alphabet')),
                assumptions=['ref/datamodel.py transcribes the data model and the state diagrams of V1.1b3 6.1-6.17',
                             'lock-step: the reference is re-synchronised with the real store in every state, so each transition is judged on its own'])


def replay(w):
    if w['layout'].startswith('defaults/'):
        acc = shard_defaults(('defaults',))
        vs = [v for v in acc.violations if v['witness'] == w]
        return bool(vs), '\n'.join(v['msg'] for v in vs) or 'no violation'
    lay = [l for l in stores.layouts() + stores.wide_layouts() if l.name == w['layout']][0]
    s = lay.initial_state()
    lines, bad = [], False
    for hx in w['history']:
        raw = bytes.fromhex(hx)
        m = pdu.decode('req', raw)
        ctx, ref = lay.build(s), lay.ref(s)
        want = pdu.encode(datamodel.execute(ref, m))
        try:
            got = serve(ctx, raw)
        except Exception as e:   # noqa
            got = repr(e).encode()
        ns = lay.dump(ctx)
        ok = got == want and ns == lay.dump_ref(ref)
        lines.append('%s -> %s (reference %s) store %s' % (hx, got.hex() if isinstance(got, bytes) else got, want.hex(),
                                                          'ok' if ns == lay.dump_ref(ref) else 'DIFFERS'))
        s = ns
        bad = not ok
    return bad, '\n'.join(lines)
