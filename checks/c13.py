"""C13 -- client transactions end in bounded time with a result, and the client recovers.

Deviation-bounded exploration (E2) of the REAL synchronous clients (TCP, RTU over
TCP, serial RTU/ASCII/binary, UDP) against a scripted transport with a virtual clock.
Environment choice points: peer behaviour per request frame written (own reply,
exception, nothing, garbage, other unit, stale frame(s), other function, late reply,
reset), outcome of each logical read (full, 0/1/n-1 of n bytes, OSError, peer close),
send ok / OSError.  All executions with <= 2 (quick) / <= 3 (thorough) deviations
from the healthy run, for every retry configuration; each followed by one healthy
transaction on the same client.  Oracle: ref/clientpolicy.py.
"""
import itertools

from mc.acc import Acc
from mc import par, choice
from ref import clientpolicy
from harness import clients, clientsim

ID = 'C13'
LEVEL = 'fault_enumeration'
REQS = ['read-registers', 'write-single', 'read-coils', 'diagnostic']


def first_deviation(env, spec):
    for c, lab in zip(env.choices, env.labels):
        if c:
            menu = {'peer': spec.peer_menu, 'read': spec.read_menu, 'send': spec.send_menu}[lab]
            return '%s:%s' % (lab, menu[c])
    return 'none'


def judge(acc, spec, env, recs, hang):
    cfgc = 'r%d/roe%d/roi%d' % (spec.retries, spec.roe, spec.roi)
    dev = first_deviation(env, spec)
    wit = dict(client=spec.kind, request=spec.request, retries=spec.retries, roe=spec.roe, roi=spec.roi, backoff=spec.backoff,
               choices=list(env.choices), labels=['%s' % lab for lab in env.labels])
    if spec.history:
        wit['history'] = [h if isinstance(h, str) else list(h) for h in spec.history]

    def bad(what, msg):
        acc.violation('C13/%s/%s/%s/%s' % (spec.kind, cfgc, what, dev), wit, msg, '%s/%s' % (spec.kind, cfgc))
    if hang:
        bad('hang', 'the call did not end within the horizon of clock/transport operations')
        return
    main = [r for r in recs if r['role'] == 'main'][0]
    follow = [r for r in recs if r['role'] == 'follow-up'][0]
    if main['raised'] is not None:
        bad('raised:' + type(main['raised']).__name__, 'execute raised %r' % (main['raised'],))
    else:
        d = clientsim.describe(main['result'])
        if d[0] in ('none', 'undescribable'):
            bad('returned-' + d[0], 'execute returned %r' % (main['result'],))
    if len(main['writes']) > clientpolicy.max_sends(spec.retries):
        bad('too-many-sends', '%d request frames written, budget 1 + %d retries' % (len(main['writes']), spec.retries))
    if main.get('pauses', 0) > clientpolicy.pause_budget(spec.retries, spec.backoff) + 1e-6:
        bad('back-off-too-long', 'the call paused %.2f s between attempts, the settings allow %.2f s'
            % (main['pauses'], clientpolicy.pause_budget(spec.retries, spec.backoff)))
    limit = clientpolicy.time_budget(spec.retries, spec.timeout, spec.backoff)
    if main['elapsed'] > limit:
        bad('too-slow', 'the call took %.1f virtual seconds, budget %.1f' % (main['elapsed'], limit))
    # the follow-up healthy transaction returns its own correct reply
    ok = follow['raised'] is None and clientsim.describe(follow['result'])[0] == 'response'
    if ok:
        d = clientsim.describe(follow['result'])
        ok = d[2] == follow.get('expected_pdu')
    if not ok:
        bad('no-recovery', 'the healthy transaction after the faults returned %r (raised %r)'
            % (clientsim.describe(follow['result'])[:3], follow['raised']))


def explore_cfg(acc, spec, bound):
    def run(env):
        try:
            return clientsim.Sim(env, spec).run(), False
        except clients.HorizonHit:
            return None, True

    def on_exec(env, obs):
        recs, hang = obs
        acc.inc('evaluations')
        if env.deviations():
            acc.add('nontrivial', (spec.kind, spec.request, spec.retries, spec.roe, spec.roi, tuple(env.choices)))
        judge(acc, spec, env, recs, hang)
    try:
        st = choice.explore(run, bound, horizon=400, on_exec=on_exec)
    except choice.ReplayDivergence as e:
        # the same environment answers did not lead to the same execution: a FRESH client object behaved
        # differently because of what earlier client objects of this process did (state kept outside the client)
        acc.violation('C13/%s/r%d/roe%d/roi%d/state-carried-over/none' % (spec.kind, spec.retries, spec.roe, spec.roi),
                      dict(client=spec.kind, request=spec.request, retries=spec.retries, roe=spec.roe, roi=spec.roi, diverged=str(e)[:120]),
                      'a fresh client did not repeat the execution it showed for the same environment answers: %s' % e, spec.kind)
        return dict(executions=0, points=0)
    acc.inc('executions', st['executions'])
    acc.inc('choice_points', st['points'])
    return st


def retry_contract(acc, kind, request, retries, which):
    """documented retry options: j <= retries empty (resp. foreign) replies followed by a valid one -> the valid reply is returned"""
    filler = 'nothing' if which == 'empty' else 'other-unit'
    spec = clientsim.Spec(kind, request, retries=retries, retry_on_empty=(which == 'empty'), retry_on_invalid=(which == 'invalid'),
                          backoff=0.05, peer_menu=['own', filler], read_menu=['full'], send_menu=['ok'])
    for j in range(0, retries + 1):
        env = choice.Env([1] * j)           # j filler replies, then the own reply (choice 0)
        try:
            recs = clientsim.Sim(env, spec).run()
        except clients.HorizonHit:
            recs = None
        acc.inc('evaluations')
        good = False
        if recs:
            main = [r for r in recs if r['role'] == 'main'][0]
            d = clientsim.describe(main['result'])
            good = main['raised'] is None and d[0] == 'response' and not d[1].startswith('Exception')
        if not good:
            acc.violation('C13/%s/r%d/retry-not-honoured:%s/%d-%s-then-valid' % (kind, retries, which, j, filler),
                          dict(client=kind, request=request, retries=retries, which=which, fillers=j),
                          'retry_on_%s with retries=%d: %d %s replies then a valid one did not return the valid reply' % (which, retries, j, filler), kind)


HEADER = {'tcp': 8, 'rtu': 2, 'ascii': 5, 'binary': 3, 'tls': 1}
LATENCY_REQS = ['read-registers', 'write-single', 'mask-write', 'diagnostic', 'device-information', 'write-registers']


def latency_contract(acc, kind, request, tier):
    """a healthy transport has latency: the valid reply arrives some time after the request, well inside the timeout, whole or
    in two pieces (what the client reads first, then the rest a little later in one piece) -- it is returned.  Also when the
    unit did not answer the transaction before (the client then reads differently)."""
    hdr = HEADER[clients.FRAMING[kind]]
    delays = (0.05, 0.5) if tier == 'quick' else (0.03, 0.05, 0.2, 0.5, 1.5, 2.5)
    gaps = (0.2,) if tier == 'quick' else (0.05, 0.2, 1.0)
    # a hole in the middle of what the client reads in one go is healthy on a socket (segmentation) but not on a serial line,
    # where the client takes a pause as the end of the frame: there the second piece starts exactly where the first read ends
    cuts = (hdr, hdr + 1) if kind in ('tcp', 'rtu-over-tcp') else (hdr,)
    arrivals = [(d, 0, 0.0) for d in delays] + [(d, k, g) for d in (0.0,) + delays[:1] for k in cuts for g in gaps]
    for hist in ((), (('read-registers', 'silent'),), ('write-single',)):
        for roe in (False, True):
            for arr in arrivals:
                if kind == 'udp' and arr[1]:
                    continue            # a datagram arrives whole
                if kind.startswith('serial') and arr[1] and hist and not isinstance(hist[0], str):
                    continue            # after an unanswered transaction the serial client reads the whole reply in one go
                spec = clientsim.Spec(kind, request, retries=1, retry_on_empty=roe, retry_on_invalid=False, backoff=0.05, history=hist,
                                      peer_menu=['own'], read_menu=['full'], send_menu=['ok'], arrival=arr)
                try:
                    recs = clientsim.Sim(choice.Env([]), spec).run()
                except clients.HorizonHit:
                    recs = None
                acc.inc('evaluations')
                good = False
                d = None
                if recs:
                    main = [r for r in recs if r['role'] == 'main'][0]
                    d = clientsim.describe(main['result'])
                    good = main['raised'] is None and d[0] == 'response' and not d[1].startswith('Exception') and len(main['writes']) == 1
                if not good:
                    acc.violation('C13/%s/latency/valid-reply-not-returned/%s' % (kind, 'whole' if not arr[1] else 'two-pieces'),
                                  dict(client=kind, request=request, roe=roe, arrival=list(arr), latency_history=[h if isinstance(h, str) else list(h) for h in hist]),
                                  'the valid reply arriving after %.2f s (%s) was not returned: %r'
                                  % (arr[0], 'whole' if not arr[1] else 'first %d bytes, the rest %.2f s later' % (arr[1], arr[2]), d and d[:3]), kind)


def wrap_contract(acc, kind, request):
    """non-initial state of the transaction counter: healthy transactions while it runs over the end of its 16 bits --
    each returns its reply, none raises"""
    for tid0 in (0xFFFC, 0xFFFD, 0xFFFE, 0xFFFF):
        spec = clientsim.Spec(kind, request, retries=1, backoff=0.05, history=('write-single', 'write-single'), tid0=tid0,
                              peer_menu=['own'], read_menu=['full'], send_menu=['ok'])
        try:
            recs = clientsim.Sim(choice.Env([]), spec).run()
        except clients.HorizonHit:
            recs = None
        acc.inc('evaluations')
        for i, r in enumerate(recs or [None]):
            good = r is not None and r['raised'] is None and clientsim.describe(r['result'])[0] == 'response'
            if not good:
                acc.violation('C13/%s/counter-wrap/healthy-transaction-failed' % kind, dict(client=kind, request=request, tid0=tid0, call=i),
                              'transaction counter preset to %#x: healthy call %d ended with %r (raised %r)'
                              % (tid0, i, r and clientsim.describe(r['result'])[:2], r and r['raised']), kind)
                break


def tls_close_contract(acc):
    """the TLS client has a receive loop of its own (the record layer is not modelled: PDUs on a stream): the peer shuts
    the session down before the reply, after its first byte, or in the middle -- for every retry configuration execute()
    returns (an error object; it does not raise) within the time the settings allow.  All positions of the close x all
    retry settings are enumerated."""
    from ref import pdu as rpdu, datamodel as rdm
    from harness import bind
    m = dict(kind='req', fc=3, address=2, count=3)
    for retries in (0, 1, 3):
        for roe in (False, True):
            for close_at in (0, 1, 2, 3):                  # logical read number at which the peer is found to have closed
                clock = clients.VClock()
                st = clientsim.LAY.ref(clientsim.LAY.initial_state())
                reply = rpdu.encode(rdm.execute(st, m))
                line = clients.Line(clock, lambda ln, data: ln.push(reply))
                state = dict(n=0)

                def decide(size):
                    state['n'] += 1
                    if state['n'] - 1 == close_at:
                        return 'eof'
                    return ('short', 1) if close_at == 3 and state['n'] == 2 else 'full'
                wit = dict(tls_close=close_at, retries=retries, retry_on_empty=roe)
                raised, r = None, None
                with clients.Patched(clock, line):
                    c = clients.make_client('tls', line, retries=retries, retry_on_empty=roe, backoff=0.3)
                    clients.hook_logical_reads(c, line, decide)
                    t0 = clock.t
                    try:
                        r = c.execute(bind.to_obj(dict(m, unit=1)))
                    except clients.HorizonHit:
                        raised = 'hang'
                    except Exception as e:   # noqa
                        raised = type(e).__name__
                    waited = clock.t - t0
                acc.inc('evaluations')
                budget = (retries + 1) * (3 + 1.0) + sum(0.3 * 2 ** i for i in range(retries)) + 2
                if raised is not None:
                    acc.violation('C13/tls/r%d/raised:%s/peer-closed' % (retries, raised), wit,
                                  'the peer closed the session at read %d: execute raised %s' % (close_at, raised), 'tls')
                elif waited > budget:
                    acc.violation('C13/tls/r%d/too-long/peer-closed' % retries, wit, 'execute took %.1f virtual seconds (budget %.1f)' % (waited, budget), 'tls')
                acc.add('nontrivial', ('tls-close', retries, roe, close_at, clientsim.describe(r)[:2] if raised is None else raised))


def shard(args):
    kind, request, tier = args
    acc = Acc()
    if request == '@tls-close':
        tls_close_contract(acc)
        return acc
    if request == '@latency':
        for r in LATENCY_REQS:
            latency_contract(acc, kind, r, tier)
            wrap_contract(acc, kind, r)
        return acc
    bound = 2 if tier == 'quick' else 3
    for retries in (0, 1, 2, 3):
        for roe in (False, True):
            for roi in (False, True):
                for backoff in ((0.3,) if tier == 'quick' and retries in (1, 2) else (0.3, 0.05)):
                    spec = clientsim.Spec(kind, request, retries=retries, retry_on_empty=roe, retry_on_invalid=roi, backoff=backoff)
                    explore_cfg(acc, spec, bound if retries < 3 or tier == 'quick' else 2)
        # ... and after an earlier, answered transaction on the same client (what a healthy exchange leaves behind
        # must not be taken for the outcome of a later, failed one)
        if retries in (0, 2):
            for both in (False, True):
                spec = clientsim.Spec(kind, request, retries=retries, retry_on_empty=both, retry_on_invalid=both, backoff=0.3,
                                      history=('write-single',))
                explore_cfg(acc, spec, bound if tier == 'quick' else 2)
                # ... and after an earlier transaction that was never answered (the client then reads differently)
                spec = clientsim.Spec(kind, request, retries=retries, retry_on_empty=both, retry_on_invalid=both, backoff=0.3,
                                      history=(('read-registers', 'silent'),))
                explore_cfg(acc, spec, 1 if tier == 'quick' else 2)
            # ... and after several of them (how long a call pauses depends on its settings, not on the client's past)
            if retries == 2:
                spec = clientsim.Spec(kind, request, retries=retries, retry_on_empty=True, retry_on_invalid=True, backoff=0.3,
                                      history=(('read-registers', 'silent'),) * 3)
                explore_cfg(acc, spec, 1)
        if retries:
            retry_contract(acc, kind, request, retries, 'empty')
            retry_contract(acc, kind, request, retries, 'invalid')
    acc.sample(dict(client=kind, request=request, peer_menu=clientsim.PEER_MENU, read_menu=clientsim.READ_MENU, deviation_bound=bound))
    return acc


def run(tier, seed):
    reqs = REQS + ['device-information', 'read-max'] if tier == 'quick' else REQS + ['read-max', 'read-write-registers', 'write-coils', 'write-registers', 'device-information']
    shards = [(k, r, tier) for k in clients.KINDS for r in reqs if tier != 'quick' or (r != 'device-information' or 'rtu' in k) and (r != 'read-max' or k in ('udp', 'tcp'))]
    shards += [(k, '@latency', tier) for k in clients.KINDS]
    shards.append(('tls', '@tls-close', tier))
    acc = par.run_shards(shard, shards)
    return dict(acc=acc, level=LEVEL,
                coverage=dict(
                    rule='one case = one complete execution (history of environment choices) of the real client; non-trivial = distinct executions '
                         'with at least one deviation from the healthy run',
                    bounds='all executions with <= %d deviations; retries 0..3 x retry_on_empty x retry_on_invalid x backoff {0.3, 0.05}; 6 client kinds x %d request '
                           'classes; plus the retry contract scripts (j <= retries empty/foreign replies then a valid one) and the latency contract (valid reply after 0.03..2.5 s, whole or header-then-rest, 6 request classes, after none / an unanswered / an answered transaction)' % (2 if tier == 'quick' else 3, 4 if tier == 'quick' else 8),
                    executions=acc.n.get('executions', 0), choice_points=acc.n.get('choice_points', 0)),
                assumptions=['virtual clock: every time() call advances 10 ms, sleep(d) advances d; a serial read blocks until its timeout',
                             'horizon 60000 clock calls / 200000 transport operations per execution = "hang"',
                             'failure to establish the connection is excepted by the property and is not injected'])


def replay(w):
    if 'diverged' in w:
        a2 = shard((w['client'], w['request'], 'quick'))
        vs = [v for v in a2.violations if 'diverged' in v['witness']]
        return bool(vs), '\n'.join(v['msg'] for v in vs) or 'no divergence this time'
    acc = Acc()
    if 'tid0' in w:
        wrap_contract(acc, w['client'], w['request'])
        vs = [v for v in acc.violations if v['witness'] == w]
        return bool(vs), '\n'.join(v['msg'] for v in vs) or 'no violation'
    if 'arrival' in w:
        latency_contract(acc, w['client'], w['request'], 'thorough')
        vs = [v for v in acc.violations if v['witness'] == w]
        return bool(vs), '\n'.join(v['msg'] for v in vs) or 'no violation'
    if 'tls_close' in w:
        tls_close_contract(acc)
        vs = [v for v in acc.violations if v['witness'] == w]
        return bool(vs), '\n'.join(v['msg'] for v in vs) or 'no violation'
    if 'fillers' in w:
        retry_contract(acc, w['client'], w['request'], w['retries'], w['which'])
        vs = [v for v in acc.violations if v['witness'] == w]
        return bool(vs), '\n'.join(v['msg'] for v in vs) or 'no violation'
    spec = clientsim.Spec(w['client'], w['request'], retries=w['retries'], retry_on_empty=w['roe'], retry_on_invalid=w['roi'], backoff=w['backoff'],
                          history=tuple(h if isinstance(h, str) else tuple(h) for h in w.get('history', ())))
    env = choice.Env(w['choices'])
    try:
        recs, hang = clientsim.Sim(env, spec).run(), False
    except clients.HorizonHit:
        recs, hang = None, True
    judge(acc, spec, env, recs, hang)
    lines = ['%s: %s' % (v['sig'], v['msg']) for v in acc.violations]
    if recs:
        for r in recs:
            lines.append('  %s -> %r raised %r, %d frames written, %.2f s' % (r['role'], clientsim.describe(r['result'])[:3], r['raised'], len(r['writes']), r['elapsed']))
    return bool(acc.violations), '\n'.join(lines)
