"""C08 -- the synchronous client returns only the reply to its own request.

Deviation-bounded exploration (E2) of the real clients on the scripted line of
harness/clientsim.py.  Peer menu per request frame: own reply (normal / exception),
stale reply of an earlier transaction (other transaction id) alone or in front of
the own reply, reply for another unit, reply with another function code, nothing.
Spec dimensions: client kind x request type x history of earlier transactions
(healthy, or timed out with its reply arriving late) x transaction-id counter preset
(0, 0xFFFE, 0xFFFF: the wrap) x how a reply is split across low-level reads.
Oracle: the returned object is an error object, or a response that a frame delivered
DURING THAT CALL decodes to (reference decoder) and that frame carries the request's
transaction id (TCP/UDP), unit id (serial) and function code (or code | 0x80); with no
deviation the returned response must equal the server's reply.
"""
from mc.acc import Acc
from mc import par, choice
from ref import pdu
from harness import clients, clientsim

ID = 'C08'
LEVEL = 'model_checking'
PEER = ['own', 'own-exception', 'stale', 'stale+own', 'other-unit', 'unit-0', 'unit-255', 'other-function', 'nothing']
REQS = ['read-registers', 'read-coils', 'write-single', 'write-registers', 'mask-write', 'diagnostic',
        'read-discrete', 'read-input', 'write-coil', 'write-coils', 'read-write-registers', 'diagnostic-0E', 'device-information', 'read-max',
        'custom-unregistered']
HISTORIES = {'none': (), 'one-ok': ('write-single',), 'one-late': (('read-registers', 'late'),),
             'ok+late': ('write-single', ('read-registers', 'late')),
             'reused': (('@main', 'reuse'),)}      # the main request OBJECT was executed once before (healthy), then edited


def judge(acc, spec, hname, env, sim, recs, hang):
    kind = spec.kind
    wit = dict(client=kind, request=spec.request, history=hname, tid0=spec.tid0, split=spec.split, roi=spec.roi,
               choices=list(env.choices))
    if spec.retries != 3:
        wit['retries'] = spec.retries
    cfg = '%s/%s' % (kind, spec.request)
    if hang or recs is None:
        return       # C13 matter
    uses_tid = kind in ('tcp', 'udp')
    starts = {}
    t = None
    for i, rec in enumerate(recs):
        d = clientsim.describe(rec['result'])
        if rec['raised'] is not None or d[0] != 'response':
            continue
        m = rec['request']
        # frames that became available during this call
        t_end = rec['t_end']
        t_start = rec['t_start']
        body = d[2]
        inside = [f for f in sim.delivered if f.get('pdu') is not None and f['avail_at'] <= t_end and (f['avail_at'] > t_start or f['call_pushed'] == i)]
        anywhere = [f for f in sim.delivered if f.get('pdu') is not None]

        def ok(f):
            return (f['pdu'] == body and (not uses_tid or f['tid'] == rec['tid']) and f['unit'] == clientsim.UNIT
                    and f['fc'] in (m['fc'], m['fc'] | 0x80) and f['pdu'][0] in (m['fc'], m['fc'] | 0x80))
        if any(ok(f) for f in inside):
            acc.inc('justified_returns')
            continue
        same = [f for f in inside if f['pdu'] == body]
        if same:
            # several frames may carry these bytes: name the fault after the one that is closest to being the answer
            f = min(same, key=lambda f: (f['unit'] != clientsim.UNIT, f['fc'] not in (m['fc'], m['fc'] | 0x80), bool(uses_tid and f['tid'] != rec['tid'])))
            if uses_tid and f['tid'] != rec['tid']:
                what = 'wrong-tid'
            elif f['unit'] != clientsim.UNIT:
                what = 'wrong-unit'
            else:
                what = 'wrong-fc'
        elif any(f['pdu'] == body for f in anywhere):
            what = 'not-received-in-call'
        else:
            what = 'fabricated'
        acc.violation('C08/%s/%s/%s/%s' % (kind, what, hname, rec['role']), wit,
                      'call %d (%s, tid %r) returned %s %s which answers another transaction/unit/function'
                      % (i, rec['role'], rec['tid'], d[1], body.hex()), cfg)
    if not env.deviations():
        main = [r for r in recs if r['role'] == 'main'][0]
        # what went out is the request as it stands when execute() is called, under the id the client gave it
        from ref import adu
        sent = adu.parse_one(spec.framing, main['writes'][0]) if main['writes'] else None
        want_pdu = pdu.encode(main['request']) if not main['request'].get('custom') else bytes([main['request']['fc']]) + main['request']['body']
        if sent is None or sent['pdu'] != want_pdu or (uses_tid and sent['tid'] != main['tid']):
            acc.violation('C08/%s/%s/request-frame-not-the-request/%s' % (kind, spec.request, hname), wit,
                          'frame written %s, the request is %s (transaction id %r)'
                          % (main['writes'][0].hex() if main['writes'] else None, want_pdu.hex(), main['tid']), cfg)
        d = clientsim.describe(main['result'])
        own = [f for f in sim.delivered if f.get('what') == 'own' and f['call_pushed'] == recs.index(main)]
        if not own or d[0] != 'response' or d[2] != own[-1]['pdu']:
            acc.violation('C08/%s/%s/healthy-reply-not-returned/%s' % (kind, spec.request, hname), wit,
                          'healthy transport: returned %r, the server sent %s' % (d[:3], own[-1]['pdu'].hex() if own else None), cfg)


def explore_spec(acc, spec, hname, bound):
    def run(env):
        sim = clientsim.Sim(env, spec)
        try:
            return sim, sim.run(), False
        except clients.HorizonHit:
            return sim, None, True

    def on_exec(env, obs):
        sim, recs, hang = obs
        acc.inc('evaluations')
        acc.inc('transitions', len(env.choices))
        if env.deviations():
            acc.add('nontrivial', (spec.kind, spec.request, hname, spec.tid0, spec.split, spec.roi, tuple(env.choices)))
        judge(acc, spec, hname, env, sim, recs, hang)
    try:
        st = choice.explore(run, bound, horizon=300, on_exec=on_exec)
    except choice.ReplayDivergence as e:
        # the same environment answers did not lead to the same execution: a FRESH client object behaved
        # differently because of what earlier client objects of this process did (state kept outside the client)
        acc.violation('C08/%s/state-carried-over/%s/main' % (spec.kind, hname),
                      dict(client=spec.kind, request=spec.request, retries=spec.retries, roe=spec.roe, roi=spec.roi, diverged=str(e)[:120]),
                      'a fresh client did not repeat the execution it showed for the same environment answers: %s' % e, spec.kind)
        return dict(executions=0, points=0)
    acc.inc('states', st['executions'])
    return st


def shard(args):
    kind, request, tier = args
    acc = Acc()
    bound = 2 if tier == 'quick' else 3
    splits = ('whole', '3', 'bytes') if tier == 'quick' else ('whole', '1', '3', '5', '7', '9', 'bytes')
    for hname, hist in HISTORIES.items():
        for tid0 in (0, 0xFFFE, 0xFFFF):
            for split in (splits if kind != 'udp' else ('whole',)):     # a datagram is never split
                for roi, retries in ((False, 3), (True, 3), (True, 1)):
                    if tier == 'quick' and roi and (split != 'whole' or tid0 != 0):
                        continue
                    if retries == 1 and hname not in ('none', 'one-late'):
                        continue
                    spec = clientsim.Spec(kind, request, retries=retries, retry_on_invalid=roi, retry_on_empty=roi, history=hist, tid0=tid0,
                                          peer_menu=PEER, read_menu=['full'], send_menu=['ok'], split=split)
                    explore_spec(acc, spec, hname, bound)
    acc.sample(dict(client=kind, request=request, peer_menu=PEER, histories=list(HISTORIES), deviation_bound=bound))
    return acc


def run(tier, seed):
    kinds = ('tcp', 'rtu-over-tcp', 'serial-rtu', 'serial-ascii', 'serial-binary', 'udp')
    shards = [(k, r, tier) for k in kinds for r in REQS]
    acc = par.run_shards(shard, shards)
    acc.n['traces_validated_against_impl'] = acc.n.get('evaluations', 0)
    he = None if acc.n.get('justified_returns', 0) > 1000 else 'vacuous: no justified reply was ever returned'
    return dict(acc=acc, level=LEVEL, harness_error=he,
                coverage=dict(
                    rule='state = execution prefix (history of environment choices) of the real client; transition = one environment decision; '
                         'all executions with <= %d deviations per specification; non-trivial = executions with at least one deviation' % (2 if tier == 'quick' else 3),
                    bounds='6 client kinds x 15 request types (incl. the longest reply there is, and an application-defined function the device rejects) x 4 histories (none, healthy, timed-out-with-late-reply, both) x transaction-id presets {0, 0xFFFE, 0xFFFF} '
                           'x reply split {whole, after 3 bytes, byte-by-byte%s} x retry_on_invalid; peer menu %r'
                           % (', after 1/5/7/9 bytes' if tier == 'thorough' else '', PEER)),
                assumptions=['frames count as received during a call when they became readable between its start and its end',
                             'unit 0 / 0xFF wildcards are not used by the harness (unit 0x11)'])


def replay(w):
    if 'diverged' in w:
        a2 = shard((w['client'], w['request'], 'quick'))
        vs = [v for v in a2.violations if 'diverged' in v['witness']]
        return bool(vs), '\n'.join(v['msg'] for v in vs) or 'no divergence this time'
    acc = Acc()
    spec = clientsim.Spec(w['client'], w['request'], retries=w.get('retries', 3), retry_on_invalid=w['roi'], retry_on_empty=w['roi'], history=HISTORIES[w['history']],
                          tid0=w['tid0'], peer_menu=PEER, read_menu=['full'], send_menu=['ok'], split=w['split'])
    env = choice.Env(w['choices'])
    sim = clientsim.Sim(env, spec)
    try:
        recs, hang = sim.run(), False
    except clients.HorizonHit:
        recs, hang = None, True
    judge(acc, spec, w['history'], env, sim, recs, hang)
    lines = ['%s: %s' % (v['sig'], v['msg']) for v in acc.violations]
    for r in recs or []:
        lines.append('  %s tid %r -> %r' % (r['role'], r['tid'], clientsim.describe(r['result'])[:3]))
    lines.append('  delivered: %r' % [(f.get('what'), f.get('tid'), f.get('unit'), f['bytes'].hex()) for f in sim.delivered])
    return bool(acc.violations), '\n'.join(lines)
