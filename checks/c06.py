"""C06 -- framing is independent of how the byte stream is chunked.

Explicit-state search (E1, snapshot mode).  For a stream S of valid frames the
state is (bytes consumed, full framer snapshot, deliveries so far); a transition
feeds the next chunk of length L to the REAL framer for every L in 0..remaining.
Two cut sets leading to the same state have the same futures, so the reachable
graph covers every one of the 2^(n-1) chunkings (with any number of empty reads).
Oracle (differential): deliveries of the same framer fed one frame per call.
"""
import itertools

from mc.acc import Acc
from mc import states, par
from ref import adu, pdu
from harness import framers, catalog

ID = 'C06'
LEVEL = 'model_checking'
UNIT = 1
HDR = {'tcp': 8, 'rtu': 2, 'ascii': 5, 'binary': 3}
TRL = {'tcp': 0, 'rtu': 2, 'ascii': 4, 'binary': 3}


def frames_for(framing, names):
    out = []
    for i, n in enumerate(names):
        unit = UNIT
        if '@' in n:                      # 'req03@2': the same message addressed to a foreign unit
            n, u = n.split('@')
            unit = int(u)
        m = catalog.BY_NAME[n]
        out.append(adu.build(framing, unit, pdu.encode(m), tid=i + 1))
    return out


def baseline(framing, side, frames):
    """Deliveries when the same framer gets one frame per call."""
    fr = framers.make(framing, side)
    exp = []
    for f in frames:
        got, exc = framers.feed(fr, f, [UNIT], False)
        foreign = adu.parse_one(framing, f)['unit'] != UNIT
        if exc is not None or len(got) != (0 if foreign else 1):
            return None, 'one-frame-per-read delivery is itself wrong (%s, %d msgs)' % (
                type(exc).__name__ if exc else 'no exception', len(got))
        exp.extend(got)
    return tuple(exp), None


def cut_classes(framing, bounds, chunks):
    """Classify where the chunk boundaries of a path fall."""
    n = bounds[-1]
    cls = set()
    pos = 0
    for L in chunks:
        a, b = pos, pos + L
        pos = b
        if L == 0:
            cls.add('empty-read')
            continue
        if any(a < x < b for x in bounds[1:-1]) or sum(1 for x in bounds if a <= x <= b) > 2:
            cls.add('multi-frame-chunk')
        if b >= n:
            continue
        k = max(i for i, x in enumerate(bounds[:-1]) if x <= b)
        off, ln = b - bounds[k], bounds[k + 1] - bounds[k]
        if off == 0:
            cls.add('at-boundary')
        elif off < HDR[framing]:
            cls.add('in-header')
        elif off >= ln - TRL[framing]:
            cls.add('in-trailer')
        else:
            cls.add('in-pdu')
    return '+'.join(sorted(cls)) or 'whole'


def _subseq(a, b):
    it = iter(b)
    return all(any(x == y for y in it) for x in a)


def explore_stream(acc, framing, side, names):
    frames = frames_for(framing, names)
    S = b''.join(frames)
    n = len(S)
    bounds = [0]
    for f in frames:
        bounds.append(bounds[-1] + len(f))
    cfg = '%s/%s/%s' % (framing, side, '+'.join(names))
    E, why = baseline(framing, side, frames)
    if E is None:
        # the reference delivery itself (one valid frame per read, own unit) does not deliver one message per frame
        acc.inc('streams_excluded')
        acc.add('excluded', cfg + ': ' + why)
        acc.violation('C06/%s/%s/lost/one-frame-per-read' % (framing, side), dict(framing=framing, side=side, stream=list(names), chunks=[len(f) for f in frames]),
                      'a stream of valid frames delivered one frame per read: ' + why, cfg)
        return
    acc.inc('streams')
    fresh = framers.snapshot(framers.make(framing, side))
    init = (0, fresh, ())

    def events(s):
        pos = s[0]
        return range(0, n - pos + 1)

    def step(s, L):
        pos, snap, delivered = s
        fr = framers.restore(framing, side, snap)
        got, exc = framers.feed(fr, S[pos:pos + L], [UNIT], False)
        nd = delivered + tuple(got)
        return (pos + L, framers.snapshot(fr), nd), exc

    def witness(path, s, L=None):
        chunks = list(path(s)) + ([L] if L is not None else [])
        return chunks

    def report(kind, chunks, msg):
        sig = 'C06/%s/%s/%s/%s' % (framing, side, kind, cut_classes(framing, bounds, chunks))
        acc.violation(sig, dict(framing=framing, side=side, stream=list(names), chunks=chunks), msg, cfg)

    def on_edge(s, L, nxt, exc, path):
        if exc is not None:
            report('exception:' + type(exc).__name__, witness(path, s, L),
                   '%s escaped processIncomingPacket on a stream of valid frames: %s' % (type(exc).__name__, exc))
        nd = nxt[2]
        if nd != s[2] and not _subseq(nd, E):
            report('wrong-delivery', witness(path, s, L),
                   'delivered messages %d are not a subsequence of the one-frame-per-read deliveries '
                   '(duplicate, reordered or foreign message)' % len(nd))

    def on_state(s, path):
        if s[0] == n:
            acc.add('terminal_outcomes', (cfg, len(s[2]), s[2] == E))
            if s[2] != E and _subseq(s[2], E):
                chunks = witness(path, s) if path != () else []
                report('lost', chunks, 'all %d bytes consumed but only %d of %d messages delivered'
                       % (n, len(s[2]), len(E)))
        if s[1] != fresh:
            acc.add('nontrivial', (cfg, s[0], hash(s[1]) & 0xFFFFFFFF, len(s[2])))

    st, path = states.bfs_snapshot([init], events, step, on_edge=on_edge, on_state=on_state, max_states=50 * (n + 1) + 200)
    if not st.closed:
        # cut sets no longer lead to common states (the receiver carries something that differs with every call, e.g. a
        # counter): fall back to enumerating the chunkings themselves -- every one with at most two cuts
        acc.cap('state-merging-defeated:' + cfg)
        explore_cuts(acc, framing, side, frames, list(names), 2, True)
    acc.inc('states', st.states)
    acc.inc('transitions', st.transitions)
    acc.inc('traces_validated_against_impl', st.transitions)
    acc.inc('evaluations', st.transitions)
    acc.inc('chunkings_covered_log2', max(0, n - 1))
    if not st.closed:
        acc.cap('bfs-not-closed:' + cfg)
    if len(acc.samples) < 3:
        acc.sample(dict(stream=cfg, bytes=S.hex(), states=st.states, transitions=st.transitions,
                        expected_deliveries=len(E)))


def long_frames(framing, side, k):
    """k maximum-size frames with distinct contents (PDU of 252 bytes, free of delimiter bytes)"""
    out = []
    for i in range(k):
        if side == 'req':
            m = dict(kind='req', fc=0x10, address=0x0100 + i, count=123, byte_count=246,
                     registers=[0x0200 + 0x100 * i + (j % 100) for j in range(123)])
        else:
            m = dict(kind='rsp', fc=3, byte_count=250, registers=[0x0200 + 0x100 * i + (j % 100) for j in range(125)])
        out.append(adu.build(framing, UNIT, pdu.encode(m), tid=i + 1))
    return out


def cut_menu(framing, bounds, dense):
    n = bounds[-1]
    if dense:
        return list(range(1, n))
    pts = set()
    for b in bounds:
        for d in range(-9, 10):
            pts.add(b + d)
    pts.update(range(1, n, 16))
    pts.update((253, 254, 255, 256, 259, 260, 261, 262, 263, 264, 512, 513, 519, 520, 521))
    return sorted(x for x in pts if 0 < x < n)


def explore_long(acc, framing, side, k, max_cuts, dense):
    """Streams of maximum-size frames (longer than any single frame, so that anything the receiver does 'because the
    buffer is too long' shows): every chunking with at most max_cuts cuts, cut positions from cut_menu (every position
    when dense).  Deviation-bounded: 0 cuts, then 1, then 2."""
    explore_cuts(acc, framing, side, long_frames(framing, side, k), ['max%s#%d' % (side, k)], max_cuts, dense, k)


def explore_cuts(acc, framing, side, frames, names, max_cuts, dense, k=None):
    """every chunking of the stream with at most max_cuts cuts -- no reliance on two cut sets reaching the same state"""
    S = b''.join(frames)
    n = len(S)
    bounds = [0]
    for f in frames:
        bounds.append(bounds[-1] + len(f))
    cfg = '%s/%s/%s' % (framing, side, '+'.join(names))
    E, why = baseline(framing, side, frames)
    if E is None:
        acc.inc('streams_excluded')
        acc.add('excluded', cfg + ': ' + why)
        acc.violation('C06/%s/%s/lost/one-frame-per-read' % (framing, side), dict(framing=framing, side=side, stream=list(names), chunks=[len(f) for f in frames], **({'long': k} if k else {})),
                      'a stream of valid frames delivered one frame per read: ' + why, cfg)
        return
    acc.inc('streams')
    menu = cut_menu(framing, bounds, dense)

    def rec(fr_snap, pos, delivered, cuts, chunks):
        # close the execution: deliver the rest in one read
        fr = framers.restore(framing, side, fr_snap)
        got, exc = framers.feed(fr, S[pos:], [UNIT], False)
        acc.inc('transitions'); acc.inc('evaluations'); acc.inc('traces_validated_against_impl')
        final = delivered + tuple(got)
        ch = chunks + [n - pos]
        if exc is not None or final != E:
            kind = ('exception:' + type(exc).__name__) if exc is not None else ('lost' if _subseq(final, E) else 'wrong-delivery')
            sig = 'C06/%s/%s/%s/%s' % (framing, side, kind, cut_classes(framing, bounds, ch))
            acc.violation(sig, dict(framing=framing, side=side, stream=list(names), chunks=ch, **({'long': k} if k else {})),
                          '%d of %d messages delivered from %d frames cut as %s%s'
                          % (len(final), len(E), len(frames), ch, (' (%s escaped)' % type(exc).__name__) if exc else ''), cfg)
        acc.add('terminal_outcomes', (cfg, len(final), final == E))
        if cuts == max_cuts:
            return
        for c in menu:
            if c <= pos:
                continue
            fr = framers.restore(framing, side, fr_snap)
            got, exc = framers.feed(fr, S[pos:c], [UNIT], False)
            acc.inc('transitions'); acc.inc('evaluations'); acc.inc('traces_validated_against_impl')
            if exc is not None:
                sig = 'C06/%s/%s/exception:%s/%s' % (framing, side, type(exc).__name__, cut_classes(framing, bounds, chunks + [c - pos]))
                acc.violation(sig, dict(framing=framing, side=side, stream=list(names), chunks=chunks + [c - pos], **({'long': k} if k else {})),
                              '%s escaped on an incomplete frame' % type(exc).__name__, cfg)
                continue
            snap = framers.snapshot(fr)
            acc.inc('states')
            acc.add('nontrivial', (cfg, c, hash(snap) & 0xFFFFFFFF, len(delivered) + len(got)))
            rec(snap, c, delivered + tuple(got), cuts + 1, chunks + [c - pos])

    rec(framers.snapshot(framers.make(framing, side)), 0, (), 0, [])


def shard(args):
    acc = Acc()
    framing, side, streams = args
    if streams and streams[0] == 'LONG':
        _, k, max_cuts, dense = streams
        explore_long(acc, framing, side, k, max_cuts, dense)
        return acc
    if streams and streams[0] == 'MANY':
        # many of the shortest frames there are in one stream (more frames per read than any longer frame allows): every
        # chunking with at most one cut (quick) / two cuts (thorough)
        names = (['req07', 'req0B', 'req0C', 'req11'] * 3) if side == 'req' else (['exc01', 'rsp07', 'exc10', 'rsp02'] * 3)
        explore_cuts(acc, framing, side, frames_for(framing, names), ['many-short-%s' % side], streams[1], True)
        return acc
    for names in streams:
        explore_stream(acc, framing, side, names)
    return acc


def stream_sets(tier):
    out = []
    for side, allnames, mix in (('req', [catalog.name(m) for m in catalog.REQUESTS], catalog.MIX_REQ),
                                ('rsp', [catalog.name(m) for m in catalog.RESPONSES], catalog.MIX_RSP)):
        singles = [(n,) for n in allnames]
        pairs = list(itertools.product(mix, repeat=2))
        triples = []
        f3 = mix[0] + '@2'                 # a frame for a foreign unit in the stream must cost nothing but itself
        pairs = pairs + [(f3, mix[0]), (mix[1], f3), (f3, f3)]
        triples = [(mix[0], f3, mix[1]), (f3, mix[1], f3), (mix[1], mix[1] + '@2', mix[1])]
        # frames of one function code with different lengths, in both orders
        if side == 'req':
            pairs += [('req10', 'req10#3'), ('req10#3', 'req10#1'), ('req10#1', 'req10'), ('req0F', 'req0F#9'), ('req0F#9', 'req0F'), ('req17', 'req17#1')]
            triples += [('req10#1', 'req10#3', 'req10')]
        else:
            pairs += [('rsp03', 'rsp03#3'), ('rsp03#3', 'rsp03#1'), ('rsp03#1', 'rsp03'), ('rsp01', 'rsp01#2'), ('rsp01#2', 'rsp01')]
            triples += [('rsp03#1', 'rsp03#3', 'rsp03')]
        if tier == 'thorough':
            pairs = list(itertools.product(allnames, repeat=2)) + [(f3, mix[0]), (mix[1], f3), (f3, f3)]
            triples = triples + list(itertools.product(mix, repeat=3)) + list(itertools.product(mix[:3], repeat=4))
        out.append((side, singles, pairs, triples))
    return out


def run(tier, seed):
    shards = []
    for framing in ('tcp', 'rtu', 'ascii', 'binary'):
        for side, singles, pairs, triples in stream_sets(tier):
            shards.append((framing, side, singles))
            for i in range(0, len(pairs), 7):
                shards.append((framing, side, pairs[i:i + 7]))
            for i in range(0, len(triples), 3):
                shards.append((framing, side, triples[i:i + 3]))
        for side in ('req', 'rsp'):
            shards.append((framing, side, ('MANY', 1 if tier == 'quick' else 2)))
            if tier == 'thorough':
                shards.append((framing, side, ('LONG', 2, 2, True)))
                shards.append((framing, side, ('LONG', 3, 3, False)))
            else:
                shards.append((framing, side, ('LONG', 2, 2, False)))
                shards.append((framing, side, ('LONG', 3, 1, True)))
    acc = par.run_shards(shard, shards)
    harness_error = None
    if acc.count('terminal_outcomes') < 2 or acc.n.get('streams', 0) < 10:
        harness_error = 'vacuous exploration'
    return dict(
        acc=acc, level=LEVEL, harness_error=harness_error,
        coverage=dict(
            rule='one case = one transition of the (bytes consumed, framer state, deliveries) graph, '
                 'i.e. one real processIncomingPacket call; non-trivial = distinct reached states whose '
                 'framer snapshot differs from a fresh framer',
            streams=acc.n.get('streams', 0), streams_excluded=acc.n.get('streams_excluded', 0),
            excluded=sorted(acc.sets.get('excluded', ()))[:40],
            bounds='all chunkings (every cut set, empty reads included) of every listed stream; '
                   'streams: every single frame of every catalogued class, all ordered pairs over the 7-class mix'
                   + '; streams of 2 and 3 maximum-size frames (252-byte PDUs): every chunking with <= 2 cuts over a menu of '
                     'cut positions around every frame boundary, size limit and every 16th byte, and every single cut position'
                   + ('; thorough: maximum-size streams with every pair of cut positions (2 frames) and every triple from the menu (3 frames)' if tier == 'thorough' else '')
                   + ('; thorough: all ordered pairs over ALL catalogued classes, all triples over the 7-class mix, all 4-frame streams over a 3-class mix' if tier == 'thorough' else ''),
        ),
        assumptions=['expected deliveries are those of the same framer fed one frame per call (differential oracle)',
                     'frames are built by the reference ADU/PDU builders, unit id 1',
                     'a framer holds no state outside vars(framer) (asserted: unknown attribute types abort)'],
    )


def replay(w):
    framing, side, names = w['framing'], w['side'], w['stream']
    if names and names[0].startswith('many-short-'):
        names = (['req07', 'req0B', 'req0C', 'req11'] * 3) if side == 'req' else (['exc01', 'rsp07', 'exc10', 'rsp02'] * 3)
    frames = long_frames(framing, side, w['long']) if w.get('long') else frames_for(framing, names)
    S = b''.join(frames)
    E, why = baseline(framing, side, frames)
    fr = framers.make(framing, side)
    pos, got_all, lines, bad = 0, [], [], False
    for L in w['chunks']:
        got, exc = framers.feed(fr, S[pos:pos + L], [UNIT], False)
        lines.append('feed %-3d bytes %s -> %d msgs%s' % (L, S[pos:pos + L].hex()[:120], len(got),
                                                          ' EXC %r' % exc if exc else ''))
        pos += L
        got_all.extend(got)
        if exc is not None:
            bad = True
    if E is None:
        bad = True
        lines.append('one frame per read: ' + why)
    if E is not None:
        if not _subseq(tuple(got_all), E):
            bad = True
        if pos == len(S) and tuple(got_all) != E:
            bad = True
        lines.append('expected %d deliveries (one frame per read), got %d' % (len(E), len(got_all)))
    return bad, '\n'.join(lines)
