"""C14 -- the predicted reply length equals the length the server really sends.

Exhaustive enumeration over quantities: for every request class exposing a reply
size prediction and EVERY quantity 1..max (1..2000 bits, 1..125 registers, 1..1968
coils, 1..123 / 1..121 registers, every diagnostic sub-function) the prediction is
compared with 1 + len(encoded reply) of the real server path and with the
reference size; the per-framing ADU arithmetic of the transaction manager (normal
and exception replies) with the length of the real frame for RTU, ASCII, binary
and TLS; and end-to-end the real serial clients run each request against a
conformant peer on a scripted line: the sizes they ask of the transport must sum
to exactly the frame length, nothing may be left unread, no read may come back
short (no waiting for bytes that never come), for normal and exception replies.
"""
from mc.acc import Acc
from mc import par, choice
from ref import pdu, adu, datamodel
from harness import bind, framers, stores, clients, gen

ID = 'C14'
LEVEL = 'exploration'
BIG = stores.Layout(('seq', 0, 2004), True, False)
FRAMINGS = ('rtu', 'ascii', 'binary', 'tls')
FRAMING2 = dict(clients.FRAMING)
FRAMING2.update({'rtu-over-tcp:subclass': 'rtu', 'ascii-over-tcp:subclass': 'ascii', 'serial-rtu:echo': 'rtu', 'serial-ascii:echo': 'ascii'})


def requests(tier):
    """(class label, request message)"""
    for q in range(1, 2001):
        yield 'ReadCoils', dict(kind='req', fc=1, address=1, count=q)
        yield 'ReadDiscreteInputs', dict(kind='req', fc=2, address=2, count=q)
    for q in range(1, 126):
        yield 'ReadHoldingRegisters', dict(kind='req', fc=3, address=3, count=q)
        yield 'ReadInputRegisters', dict(kind='req', fc=4, address=4, count=q)
    for v in (0, 0xFF00):
        yield 'WriteSingleCoil', dict(kind='req', fc=5, address=5, value=v)
    for v in (0, 1, 0xFFFF):
        yield 'WriteSingleRegister', dict(kind='req', fc=6, address=6, value=v)
    for q in range(1, 1969):
        yield 'WriteMultipleCoils', dict(kind='req', fc=15, address=7, count=q, byte_count=(q + 7) // 8, bits=[bool(i % 3) for i in range(q)])
    for q in range(1, 124):
        yield 'WriteMultipleRegisters', dict(kind='req', fc=16, address=8, count=q, byte_count=2 * q, registers=list(range(q)))
    for rq in range(1, 126):
        for wq in (1, 2, 121):
            yield 'ReadWriteMultipleRegisters', dict(kind='req', fc=23, read_address=1, read_count=rq, write_address=200,
                                                     write_count=wq, write_byte_count=2 * wq, write_registers=list(range(wq)))
    for m in gen.diag('req', 'quick'):
        if m['sub'] in gen.DIAG_UNASSIGNED or m['data'][:1] not in ([0], [3], [4], [0xFF00]) and m['sub'] != 0:
            continue
        yield 'Diagnostic.%02X' % m['sub'], m


def server_reply(m):
    """reply PDU of the real server path (decode -> execute -> encode) on a big datastore"""
    ctx = BIG.build(BIG.initial_state())
    req = framers.decoder('req').decode(pdu.encode(m))
    rsp = req.execute(ctx)
    if not rsp.should_respond:
        return None
    return bind.pdu_bytes(rsp)


def shard_static(args):
    part, parts = args
    acc = Acc()
    from pymodbus.client.sync import ModbusSerialClient, ModbusTcpClient
    from pymodbus.transaction import ModbusTlsFramer
    cl = {'rtu': ModbusSerialClient(method='rtu'), 'ascii': ModbusSerialClient(method='ascii'),
          'binary': ModbusSerialClient(method='binary'), 'tls': ModbusTcpClient(framer=ModbusTlsFramer)}
    for i, (label, m) in enumerate(requests('quick')):
        if i % parts != part:
            continue
        acc.inc('evaluations')
        raw = pdu.encode(m)
        wit = dict(part='static', request=raw.hex())
        try:
            obj = bind.to_obj(m)
            pred = obj.get_response_pdu_size()
            # the prediction must not change what the request encodes to
            if bind.pdu_bytes(obj) != raw:
                acc.violation('C14/%s/-/normal/request-altered' % label, wit, 'get_response_pdu_size() changed the encoded request', label)
        except Exception as e:   # noqa
            acc.violation('C14/%s/-/normal/raise:%s' % (label, type(e).__name__), wit, repr(e)[:100], label)
            continue
        reply = server_reply(m)
        if reply is None:
            continue
        want_ref = None
        if m['fc'] != 8 or m['sub'] == 0:
            want_ref = pdu.response_size(m)
        if pred != len(reply) or (want_ref is not None and pred != want_ref):
            acc.violation('C14/%s/-/normal/pdu' % label, wit,
                          'predicted %r, the server sends %d bytes (reference %r)' % (pred, len(reply), want_ref), label)
        # the same request as a gateway holds it -- decoded from the wire rather than built by the constructor --
        # and as an application re-uses it: one object whose quantity is changed after it was built
        try:
            dobj = framers.decoder('req').decode(raw)
            dpred = dobj.get_response_pdu_size()
            if dpred != len(reply):
                acc.violation('C14/%s/-/normal/pdu-of-decoded-request' % label, dict(wit, decoded=True),
                              'a request decoded from %s predicts %r, the server sends %d bytes' % (raw.hex()[:40], dpred, len(reply)), label)
        except Exception as e:   # noqa
            acc.violation('C14/%s/-/normal/raise:%s' % (label, type(e).__name__), dict(wit, decoded=True), repr(e)[:100], label)
        if m['fc'] in (1, 2, 3, 4) and m['count'] > 1:
            try:
                small = dict(m, count=1)
                robj = bind.to_obj(small)
                robj.get_response_pdu_size()
                robj.count = m['count']
                rpred = robj.get_response_pdu_size()
                if rpred != len(reply):
                    acc.violation('C14/%s/-/normal/pdu-of-reused-request' % label, dict(wit, reused=True),
                                  'a request object whose count was changed from 1 to %d predicts %r, the server sends %d bytes' % (m['count'], rpred, len(reply)), label)
            except Exception as e:   # noqa
                acc.violation('C14/%s/-/normal/raise:%s' % (label, type(e).__name__), dict(wit, reused=True), repr(e)[:100], label)
        acc.add('nontrivial', (label, len(reply)))
        for framing in FRAMINGS:
            c = cl[framing]
            tm = c.transaction
            size = pred * 2 if framing == 'ascii' else pred
            if not hasattr(tm, '_calculate_response_length') or not hasattr(tm, '_calculate_exception_length'):
                continue        # the manager's arithmetic is arranged differently: the end-to-end part judges the read sizes
            got = tm._calculate_response_length(size)
            frame = adu.build(framing, 1, reply)
            if got != len(frame) and pred == len(reply):
                acc.violation('C14/%s/%s/normal/adu' % (label, framing), wit, 'predicted ADU %r, real frame %d bytes' % (got, len(frame)), label)
            exc = adu.build(framing, 1, bytes([m['fc'] | 0x80, 2]))
            gote = tm._calculate_exception_length()
            if gote != len(exc):
                acc.violation('C14/%s/%s/exception/adu' % (label, framing), wit, 'predicted exception ADU %r, real frame %d bytes' % (gote, len(exc)), label)
    return acc


def e2e_requests(tier='quick'):
    qs = sorted(set(q for q in gen.B16 if 1 <= q <= 2000) | {3, 15, 16, 17, 124, 125, 1967, 1968, 1999, 2000})
    if tier == 'thorough':
        qs = list(range(1, 2001))
    for q in qs:
        yield dict(kind='req', fc=1, address=1, count=q)
        if q <= 125:
            yield dict(kind='req', fc=3, address=3, count=q)
            yield dict(kind='req', fc=23, read_address=1, read_count=q, write_address=200, write_count=2, write_byte_count=4, write_registers=[1, 2])
        if q <= 1968:
            yield dict(kind='req', fc=15, address=7, count=q, byte_count=(q + 7) // 8, bits=[True] * q)
        if q <= 123:
            yield dict(kind='req', fc=16, address=8, count=q, byte_count=2 * q, registers=list(range(q)))
    yield dict(kind='req', fc=5, address=5, value=0xFF00)
    yield dict(kind='req', fc=6, address=6, value=0x1234)
    yield dict(kind='req', fc=8, sub=0, data=[0xA537])
    yield dict(kind='req', fc=8, sub=0x0B, data=[0])


def run_e2e(acc, kind, m, reply_kind):
    framing = FRAMING2[kind]
    clock = clients.VClock()
    reply = server_reply(m) if reply_kind == 'normal' else bytes([m['fc'] | 0x80, 2])
    frame = adu.build(framing, 1, reply, tid=1)

    echo = kind.endswith(':echo')
    sent = []

    def peer(line, data):
        sent.append(bytes(data))
        if echo:
            line.push(bytes(data))          # a two-wire line: the adapter hears its own transmission first
        line.push(frame)
    line = clients.Line(clock, peer)
    label = '%s' % bind.cls_name(m).replace('Request', '')
    wit = dict(part='e2e', client=kind, request=pdu.encode(m).hex(), reply=reply_kind)
    with clients.Patched(clock, line):
        c = make(kind, line)
        clients.hook_logical_reads(c, line, lambda size: 'full')
        t0 = clock.t
        try:
            r = c.execute(bind.to_obj(dict(m, unit=1)))
        except Exception as e:   # noqa
            acc.violation('C14/%s/%s/%s/raise:%s' % (label, framing, reply_kind, type(e).__name__), wit, repr(e)[:100], kind)
            return
        waited = clock.t - t0
    acc.inc('evaluations')
    asked = sum(s for s in line.read_sizes if s)
    left = sum(len(b) for _, b in line.rx)
    problems = []
    if hasattr(r, 'isError') and (r.isError() != (reply_kind == 'exception')) or not hasattr(r, 'function_code'):
        problems.append(('reads', 'the reply was not returned: %r' % (r,)))
    expect = len(frame) + (len(sent[0]) if echo and sent else 0)
    if asked != expect or None in line.read_sizes:
        problems.append(('reads', 'frame of %d bytes%s, the client asked for %r' % (len(frame), ' after an echo of %d bytes' % len(sent[0]) if echo and sent else '', line.read_sizes)))
    if left:
        problems.append(('reads', '%d reply bytes left unread' % left))
    if waited >= 2.9:
        problems.append(('reads', 'the client waited %.1f virtual seconds for bytes that never came' % waited))
    for what, msg in problems[:1]:
        acc.violation('C14/%s/%s/%s/%s' % (label, framing, reply_kind, what), wit, msg, kind)
    acc.add('nontrivial', (kind, label, len(frame)))


def run_history(acc, kind, behaviours):
    """several transactions on ONE client: each peer behaviour is normal | exception | silent.  Every reply that
    arrives must be read exactly (no short stop, no waiting), except in the transaction right after a silent one,
    where this client deliberately reads the whole predicted frame at once (base behaviour, not judged)."""
    framing = FRAMING2[kind]
    clock = clients.VClock()
    state = dict(i=0)
    frames = []

    def peer(line, data):
        b = behaviours[state['i']]
        m = dict(kind='req', fc=3, address=3, count=10)
        if b == 'silent':
            frames.append(None)
            return
        if b == 'foreign':
            # every attempt of this transaction is answered by ANOTHER unit (the client is configured to retry then)
            f = adu.build(framing, 2, server_reply(m), tid=state['i'] + 1)
            frames.append(f)
            line.push(f)
            return
        reply = server_reply(m) if b == 'normal' else bytes([0x83, 2])
        f = adu.build(framing, 1, reply, tid=state['i'] + 1)
        frames.append(f)
        line.push(f)
    line = clients.Line(clock, peer)
    wit = dict(part='history', client=kind, behaviours=list(behaviours))
    with clients.Patched(clock, line):
        c = make(kind, line, retries=1, retry_on_invalid=True) if 'foreign' in behaviours else make(kind, line)
        clients.hook_logical_reads(c, line, lambda size: 'full')
        for i, b in enumerate(behaviours):
            state['i'] = i
            line.read_sizes = []
            n0 = len(frames)
            t0 = clock.t
            try:
                r = c.execute(bind.to_obj(dict(kind='req', fc=3, address=3, count=10, unit=1)))
            except Exception as e:   # noqa
                acc.violation('C14/ReadHoldingRegisters/%s/history/raise:%s' % (framing, type(e).__name__), wit, repr(e)[:100], kind)
                return
            waited = clock.t - t0
            acc.inc('evaluations')
            f = frames[n0] if len(frames) > n0 else None
            if f is None or b == 'foreign' or (i > 0 and behaviours[i - 1] == 'silent'):
                continue
            asked = sum(s for s in line.read_sizes if s)
            if asked != len(f) or None in line.read_sizes or waited >= 2.9 or not hasattr(r, 'function_code'):
                acc.violation('C14/ReadHoldingRegisters/%s/%s/reads-after-history' % (framing, 'exception' if b == 'exception' else 'normal'),
                              dict(wit, step=i), 'transaction %d (%s reply of %d bytes): the client asked for %r and waited %.1f s'
                              % (i, b, len(f), line.read_sizes, waited), kind)
                return
    acc.add('nontrivial', (kind, 'history', tuple(behaviours)))


SEQ_ALPHABET = [
    dict(kind='req', fc=3, address=3, count=2),
    dict(kind='req', fc=3, address=3, count=5),
    dict(kind='req', fc=1, address=1, count=9),
    dict(kind='req', fc=1, address=1, count=19),
    dict(kind='req', fc=23, read_address=1, read_count=2, write_address=200, write_count=1, write_byte_count=2, write_registers=[7]),
    dict(kind='req', fc=23, read_address=1, read_count=5, write_address=200, write_count=2, write_byte_count=4, write_registers=[7, 8]),
    dict(kind='req', fc=23, read_address=1, read_count=1, write_address=200, write_count=2, write_byte_count=4, write_registers=[7, 8]),
    dict(kind='req', fc=16, address=8, count=3, byte_count=6, registers=[1, 2, 3]),
    dict(kind='req', fc=15, address=7, count=9, byte_count=2, bits=[True] * 9),
    dict(kind='req', fc=6, address=6, value=0x1234),
    dict(kind='req', fc=8, sub=0, data=[0xA537]),
    dict(kind='req', fc=8, sub=0x0B, data=[0]),
    dict(kind='req', fc=4, address=4, count=5),
    dict(kind='req', fc=2, address=2, count=9),
]


def run_sequence(acc, kind, reqs):
    """DIFFERENT requests, one after the other, on ONE client against a conformant peer: what the client asks of the
    transport for a request depends on that request alone, not on what the client was used for before."""
    framing = FRAMING2[kind]
    clock = clients.VClock()
    state = dict(i=0)
    frames = []

    def peer(line, data):
        f = adu.build(framing, 1, server_reply(reqs[state['i']]), tid=state['i'] + 1)
        frames.append(f)
        line.push(f)
    line = clients.Line(clock, peer)
    wit = dict(part='sequence', client=kind, requests=[pdu.encode(m).hex() for m in reqs])
    with clients.Patched(clock, line):
        c = make(kind, line)
        clients.hook_logical_reads(c, line, lambda size: 'full')
        for i, m in enumerate(reqs):
            state['i'] = i
            line.read_sizes = []
            n0 = len(frames)
            t0 = clock.t
            label = bind.cls_name(m).replace('Request', '')
            try:
                r = c.execute(bind.to_obj(dict(m, unit=1)))
            except Exception as e:   # noqa
                acc.violation('C14/%s/%s/sequence/raise:%s' % (label, framing, type(e).__name__), dict(wit, step=i), repr(e)[:100], kind)
                return
            waited = clock.t - t0
            acc.inc('evaluations')
            f = frames[n0] if len(frames) > n0 else b''
            asked = sum(s for s in line.read_sizes if s)
            left = sum(len(b) for _, b in line.rx)
            if asked != len(f) or None in line.read_sizes or left or waited >= 2.9 or not hasattr(r, 'function_code') or (hasattr(r, 'isError') and r.isError()):
                acc.violation('C14/%s/%s/normal/reads-in-sequence' % (label, framing), dict(wit, step=i),
                              'request %d of the sequence (reply of %d bytes): the client asked for %r, left %d bytes unread, waited %.1f s and returned %r'
                              % (i, len(f), line.read_sizes, left, waited, r), kind)
                return
    acc.add('nontrivial', (kind, 'sequence', tuple(w for w in wit['requests'])))


def run_retry(acc, kind, m, first, reply_kind):
    """the first attempt is not answered (or answered by another unit), the client is configured to retry, the
    second attempt is answered: the reads of THAT attempt must add up to exactly the reply frame"""
    framing = FRAMING2[kind]
    clock = clients.VClock()
    reply = server_reply(m) if reply_kind == 'normal' else bytes([m['fc'] | 0x80, 2])
    frame = adu.build(framing, 1, reply, tid=2)
    state = dict(n=0, t_second=None)

    def peer(line, data):
        state['n'] += 1
        if state['n'] == 1:
            if first == 'wrong-unit':
                line.push(adu.build(framing, 2, reply, tid=1))
            return
        line.read_sizes = []
        state['t_second'] = clock.t
        line.push(frame)
    line = clients.Line(clock, peer)
    label = '%s' % bind.cls_name(m).replace('Request', '')
    wit = dict(part='retry', client=kind, request=pdu.encode(m).hex(), reply=reply_kind, first=first)
    with clients.Patched(clock, line):
        c = make(kind, line, retries=2, retry_on_empty=True, retry_on_invalid=True)
        clients.hook_logical_reads(c, line, lambda size: 'full')
        try:
            r = c.execute(bind.to_obj(dict(m, unit=1)))
        except Exception as e:   # noqa
            acc.violation('C14/%s/%s/%s/retry-raise:%s' % (label, framing, reply_kind, type(e).__name__), wit, repr(e)[:100], kind)
            return
    acc.inc('evaluations')
    if state['n'] < 2:
        return                      # this client did not retry (the retry policy itself is C13's subject)
    asked = sum(s for s in line.read_sizes if s)
    waited = clock.t - state['t_second']
    if state['n'] == 2 and (asked != len(frame) or waited >= 2.9 or not hasattr(r, 'function_code')):
        acc.violation('C14/%s/%s/%s/reads-on-retry' % (label, framing, reply_kind), wit,
                      'second attempt answered with %d bytes: the client asked for %r, waited %.1f s and returned %r'
                      % (len(frame), line.read_sizes, waited, type(r).__name__), kind)
    acc.add('nontrivial', (kind, 'retry', label, first, reply_kind))


def run_toggle(acc, kind, first, unit=0):
    """the application changes client.broadcast_enable after the client was built: a request to unit 0 is read as the
    CURRENT setting says -- not answered (nothing is read, no wait) when broadcasting, read exactly otherwise.  With
    `unit` 255 (an ordinary address whatever the option says) the reply is always there and is always read exactly."""
    framing = FRAMING2[kind]
    clock = clients.VClock()
    m = dict(kind='req', fc=6, address=6, value=0x1234)
    frame = adu.build(framing, unit, server_reply(m), tid=1)
    state = dict(answer=True)

    def peer(line, data):
        if state['answer']:
            line.push(frame)
    line = clients.Line(clock, peer)
    with clients.Patched(clock, line):
        c = make(kind, line, broadcast_enable=first)
        clients.hook_logical_reads(c, line, lambda size: 'full')
        for step, now in enumerate((first, not first, first)):
            c.broadcast_enable = now
            state['answer'] = (not now) or unit != 0     # a broadcast is never answered; with the option off unit 0 is an ordinary address
            line.read_sizes = []
            line.rx = []
            t0 = clock.t
            wit = dict(part='toggle', client=kind, first=first, step=step)
            if unit:
                wit['unit'] = unit
            try:
                c.execute(bind.to_obj(dict(m, unit=unit)))
            except Exception as e:   # noqa
                acc.violation('C14/WriteSingleRegister/%s/normal/raise:%s' % (framing, type(e).__name__), wit, repr(e)[:100], kind)
                return
            acc.inc('evaluations')
            asked = sum(s for s in line.read_sizes if s)
            waited = clock.t - t0
            want = 0 if (now and unit == 0) else len(frame)
            if asked != want or waited >= 2.9:
                acc.violation('C14/WriteSingleRegister/%s/normal/reads-after-broadcast-toggle' % framing, wit,
                              'broadcast_enable is %s now (client built with %s): the client asked for %r (reply %d bytes) and waited %.1f s'
                              % (now, first, line.read_sizes, want, waited), kind)
                return
    acc.add('nontrivial', (kind, 'toggle', first))


def make(kind, line, **kw):
    """client of `kind`; 'x:subclass' uses a trivial subclass of the stock framer"""
    base, _, sub = kind.partition(':')
    kw.setdefault('retries', 0)
    if sub == 'echo':
        return clients.make_client(base, line, handle_local_echo=True, **kw)
    if not sub:
        return clients.make_client(base, line, **kw)
    from pymodbus.client.sync import ModbusTcpClient
    from pymodbus.transaction import ModbusRtuFramer, ModbusAsciiFramer, ModbusBinaryFramer
    stock = {'rtu-over-tcp': ModbusRtuFramer, 'ascii-over-tcp': ModbusAsciiFramer, 'binary-over-tcp': ModbusBinaryFramer}[base]

    class Traced(stock):         # what an application does to trace or extend a framer
        pass
    c = ModbusTcpClient('peer', framer=Traced, timeout=3, **kw)
    c.socket = clients.FakeSocket(line)
    return c


def shard_e2e(args):
    kind, tier = args
    acc = Acc()
    for m in e2e_requests(tier):
        for rk in ('normal', 'exception'):
            run_e2e(acc, kind, m, rk)
    import itertools
    if not kind.endswith(':echo'):          # the scripted peers of the multi-transaction scenarios do not echo
        for hist in itertools.product(('normal', 'exception', 'silent'), repeat=3):
            run_history(acc, kind, hist)
        for hist in (('silent', 'normal', 'exception'), ('silent', 'normal', 'normal', 'exception'), ('silent', 'silent', 'normal', 'exception'),
                     ('foreign', 'exception'), ('foreign', 'normal', 'exception'), ('normal', 'foreign', 'exception', 'normal'),
                     ('foreign', 'foreign', 'exception'), ('exception', 'foreign', 'normal')):
            if 'foreign' in hist and FRAMING2[kind] == 'tls':
                continue                      # the TLS framing carries no unit id: there is no 'other unit' to answer
            run_history(acc, kind, hist)
        # every ordered pair of different requests on one client (and the pair followed by the first again)
        for a in SEQ_ALPHABET:
            for b in SEQ_ALPHABET:
                if a is not b:
                    run_sequence(acc, kind, [a, b, a])
        if kind.startswith('serial-'):
            for first in (False, True):
                run_toggle(acc, kind, first)
                run_toggle(acc, kind, first, unit=255)
            for m in (dict(kind='req', fc=3, address=3, count=4), dict(kind='req', fc=1, address=1, count=19),
                      dict(kind='req', fc=16, address=8, count=3, byte_count=6, registers=[1, 2, 3]), dict(kind='req', fc=6, address=6, value=0x1234)):
                for first in ('silent', 'wrong-unit'):
                    for rk in ('normal', 'exception'):
                        run_retry(acc, kind, m, first, rk)
    acc.sample(dict(client=kind, example='read 19 coils: frame %s' % adu.build(FRAMING2[kind], 1, server_reply(dict(kind='req', fc=1, address=1, count=19))).hex()))
    return acc


def shard(args):
    return shard_static(args[1:]) if args[0] == 'static' else shard_e2e(args[1:])


def run(tier, seed):
    parts = 12
    shards = [('static', k, parts) for k in range(parts)] + [('e2e', k, tier) for k in ('serial-rtu', 'serial-ascii', 'serial-binary', 'rtu-over-tcp', 'rtu-over-tcp:subclass', 'ascii-over-tcp:subclass', 'tls', 'serial-rtu:echo', 'serial-ascii:echo')]
    acc = par.run_shards(shard, shards)
    return dict(acc=acc, level=LEVEL,
                coverage=dict(
                    rule='one case = one (request, quantity) prediction compared with the real server reply and with each framer\'s ADU arithmetic, '
                         'or one end-to-end client transaction on a scripted line; non-trivial = distinct (class, reply length) pairs',
                    bounds='every quantity 1..2000 (FC1,2), 1..125 (FC3,4), 1..1968 (FC15), 1..123 (FC16), FC23 read 1..125 x write {1,2,121}, FC5/6, '
                           'every diagnostic sub-function; RTU/ASCII/binary/TLS; end-to-end on the three serial clients, RTU-over-TCP and two subclassed-framer clients for ' + ('every quantity' if tier == 'thorough' else '~30 boundary quantities') + ', normal and exception replies; all 27 three-transaction histories over {normal, exception, silent} on one client; every ordered pair a,b (then a again) of %d different requests on one client' % len(SEQ_ALPHABET)),
                assumptions=['the conformant server is the real decode/execute/encode path on a 2004-cell datastore, cross-checked with ref/pdu.response_size',
                             'virtual clock and scripted serial port / socket replace the OS'])


def replay(w):
    acc = Acc()
    m = pdu.decode('req', bytes.fromhex(w['request'])) if 'request' in w else None
    if w['part'] == 'history':
        run_history(acc, w['client'], w['behaviours'])
        return bool(acc.violations), '\n'.join('%s: %s' % (v['sig'], v['msg']) for v in acc.violations) or 'no violation'
    if w['part'] == 'sequence':
        run_sequence(acc, w['client'], [pdu.decode('req', bytes.fromhex(h)) for h in w['requests']])
        return bool(acc.violations), '\n'.join('%s: %s' % (v['sig'], v['msg']) for v in acc.violations) or 'no violation'
    if w['part'] == 'e2e':
        run_e2e(acc, w['client'], m, w['reply'])
    elif w['part'] == 'toggle':
        run_toggle(acc, w['client'], w['first'], w.get('unit', 0))
    elif w['part'] == 'retry':
        run_retry(acc, w['client'], m, w['first'], w['reply'])
    else:
        obj = bind.to_obj(m)
        pred = obj.get_response_pdu_size()
        reply = server_reply(m)
        return pred != len(reply) or bind.pdu_bytes(obj) != pdu.encode(m), 'predicted %r, server sends %d bytes; request after prediction %s' % (
            pred, len(reply), bind.pdu_bytes(obj).hex())
    return bool(acc.violations), '\n'.join('%s: %s' % (v['sig'], v['msg']) for v in acc.violations) or 'no violation'
