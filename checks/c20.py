"""C20 -- device identification is returned completely, in pages that fit.

Explicit-state exploration of the paging chains: a state is (identity, read code,
requested object id); a transition sends one Read Device Identification request
through the REAL server path (ServerDecoder -> execute -> encode) and the real
ClientDecoder, and follows next_object_id while more-follows is set (horizon 64).
Identities are enumerated so that page boundaries fall on / before / after object
boundaries; each identity is stored in ascending, descending and re-configured
(non-initial) order.  Oracle: ref/mei.py.
"""
import itertools

from mc.acc import Acc
from mc import par
from ref import mei, pdu
from harness import reset, framers, bind

ID = 'C20'
LEVEL = 'model_checking'
HORIZON = 64
L3 = [0, 1, 79, 80, 81, 120, 121, 122, 243, 244]


def txt(oid, n):
    return ''.join(chr(0x41 + (oid * 7 + i) % 26) for i in range(n))


def identities(tier):
    """yield (name, [(id, str)])"""
    for a, b, c in itertools.product(L3, repeat=3):
        yield 'b%d.%d.%d' % (a, b, c), [(0, txt(0, a)), (1, txt(1, b)), (2, txt(2, c))]
    base = [(1, 1, 1), (80, 80, 80), (81, 80, 80), (0, 121, 121), (122, 0, 121), (244, 1, 0), (10, 0, 0), (0, 0, 0)]
    reg = list(itertools.product([0, 40, 122], repeat=4))
    prv = list(itertools.product([0, 1, 200, 244], repeat=3))
    k = 0
    for bi, bb in enumerate(base):
        for ri, rr in enumerate(reg):
            for pi, pp in enumerate(prv):
                k += 1
                if tier == 'quick' and (ri * 7 + pi * 3 + bi) % 23 != 0:
                    continue
                items = [(i, txt(i, n)) for i, n in zip((0, 1, 2), bb)]
                items += [(i, txt(i, n)) for i, n in zip((3, 4, 5, 6), rr)]
                items += [(i, txt(i, n)) for i, n in zip((0x80, 0x81, 0xFF), pp)]
                yield 'x%d.%d.%d' % (bi, ri, pi), items
    # values that consist of blanks only are values like any other (an empty value is what 'not configured' looks like)
    yield 'blank.1', [(0, 'v'), (1, ' '), (2, 'r'), (3, '\t'), (5, '   '), (0x80, '  '), (0x81, 'x')]
    yield 'blank.2', [(0, ' '), (1, 'p'), (2, ' ')]
    # objects too large for any single PDU: only size bound and termination are demanded
    for n in (245, 246):
        yield 'big0.%d' % n, [(0, txt(0, n)), (1, 'p'), (2, 'r')]
        yield 'big80.%d' % n, [(0, 'v'), (1, 'p'), (2, 'r'), (0x80, txt(0x80, n))]


def ask(read_code, oid):
    """one request through the real server path and the real client decoder"""
    raw = pdu.encode(dict(kind='req', fc=0x2B, read_code=read_code, object_id=oid))
    # another component of the application prepares an identity object of its own (nothing in it yet) while the
    # device's identity is being read
    from pymodbus.device import ModbusDeviceIdentification
    ask.neighbour = ModbusDeviceIdentification()
    req = framers.decoder('req').decode(raw)
    rsp = req.execute(None)
    out = bind.pdu_bytes(rsp)
    dec = framers.decoder('rsp').decode(out)
    return out, dec


def chain(acc, name, order, ident, read_code, start, cfg):
    """follow the more-follows chain; returns violations via acc"""
    wit = dict(identity=name, order=order, read_code=read_code, start=start)
    want = mei.expected(ident, read_code, start)
    must = mei.completeness_required(ident, read_code, start)
    too_big = any(len(v) > mei.MAX_OBJECT_THAT_FITS for _, v in want)
    bc = 'unfittable-object' if too_big else ('populated-start' if must else 'other-start')
    got, oid, pages, seen_req = [], start, 0, set()
    while True:
        acc.inc('transitions')
        acc.add('states', (name, order, read_code, oid))
        try:
            out, dec = ask(read_code, oid)
        except Exception as e:   # noqa
            acc.violation('C20/%d/raise:%s/%s' % (read_code, type(e).__name__, bc), wit, repr(e)[:100], cfg)
            return
        pages += 1
        if len(out) > mei.MAX_PDU:
            acc.violation('C20/%d/oversize/%s' % (read_code, bc), wit, 'response PDU of %d bytes' % len(out), cfg)
        if dec is None or type(dec).__name__ == 'ExceptionResponse':
            acc.violation('C20/%d/no-normal-response/%s' % (read_code, bc), wit, 'response %s' % (out.hex()[:40]), cfg)
            return
        m = bind.to_msg(dec)
        got.extend(m['objects'])
        if m['more'] != 0xFF:
            break
        nxt = m['next_id']
        if pages >= HORIZON or (nxt, len(got)) in seen_req:
            acc.violation('C20/%d/non-terminating/%s' % (read_code, bc), wit,
                          'chain does not terminate: page %d asks for object 0x%02x again' % (pages, nxt), cfg)
            return
        seen_req.add((nxt, len(got)))
        oid = nxt
    acc.inc('chains')
    if pages > 1:
        acc.add('nontrivial', (name, order, read_code, start))
    if not must or too_big:
        return
    got = [(i, bytes(v)) for i, v in got]
    if got != want:
        ids_g, ids_w = [i for i, _ in got], [i for i, _ in want]
        if len(ids_g) != len(set(ids_g)):
            kind = 'duplicate'
        elif set(ids_w) - set(ids_g):
            kind = 'missing'
        elif ids_g != ids_w:
            kind = 'extra-or-order'
        else:
            kind = 'wrong-value'
        acc.violation('C20/%d/%s/%s' % (read_code, kind, bc), wit,
                      'objects %r, expected %r' % (ids_g[:12], ids_w[:12]), cfg)


def interleaved(acc, name, ident, rc_a, rc_b, abandon, cfg):
    """two clients page through the identity at the same time (read codes rc_a and rc_b, both from object 0), their
    requests alternating; with `abandon`, the first gives up after its first page.  Each chain must still get exactly
    its own category."""
    wit = dict(identity=name, order='asc', read_code=rc_b, start=0, other_chain=rc_a, abandon=abandon)
    st = {}
    for rc in (rc_a, rc_b):
        want = mei.expected(ident, rc, 0)
        if any(len(v) > mei.MAX_OBJECT_THAT_FITS for _, v in want):
            return
        st[rc] = dict(want=want, got=[], oid=0, done=False, pages=0)
    order = [rc_a, rc_b]
    turn = 0
    while not all(c['done'] for c in st.values()):
        rc = order[turn % 2]
        turn += 1
        c = st[rc]
        if c['done']:
            continue
        acc.inc('transitions')
        try:
            out, dec = ask(rc, c['oid'])
            m = bind.to_msg(dec)
        except Exception as e:   # noqa
            acc.violation('C20/%d/raise:%s/interleaved-chains' % (rc, type(e).__name__), wit, repr(e)[:100], cfg)
            return
        c['got'].extend(m['objects'])
        c['pages'] += 1
        if m['more'] != 0xFF or c['pages'] >= HORIZON or (abandon and rc == rc_a):
            c['done'] = True
        else:
            c['oid'] = m['next_id']
    acc.inc('chains', 2)
    for rc, c in st.items():
        if abandon and rc == rc_a:
            continue
        got = [(i, bytes(v)) for i, v in c['got']]
        if got != c['want']:
            acc.violation('C20/%d/%s/interleaved-chains' % (rc, 'missing' if set(i for i, _ in c['want']) - set(i for i, _ in got) else 'extra-or-order'),
                          dict(wit, read_code=rc), 'chain with read code %d got objects %r, expected %r while another client paged with read code %d'
                          % (rc, [i for i, _ in got][:12], [i for i, _ in c['want']][:12], rc_a if rc == rc_b else rc_b), cfg)


def explore_identity(acc, name, items):
    ident = dict((i, v.encode()) for i, v in items)
    for order in ('asc', 'desc', 'reconf', 'update', 'props', 'bytes'):
        reset.control_block()
        if order == 'asc':
            reset.set_identity(items)
        elif order == 'desc':
            reset.set_identity(list(reversed(items)))
        elif order == 'props':
            # objects 0-6 configured through the named properties AFTER the identity has been read once
            from pymodbus.device import ModbusControlBlock
            from pymodbus.mei_message import ReadDeviceInformationRequest
            idn = ModbusControlBlock().Identity
            reset.set_identity([(i, v) for i, v in items if i > 6] + [(i, 'old') for i, _ in items if i <= 6] + [(4, 'withdrawn-later')])
            for rc0 in (1, 2, 3):
                try:
                    ReadDeviceInformationRequest(rc0, 0).execute(None)
                except Exception:   # noqa
                    pass
            names = ['VendorName', 'ProductCode', 'MajorMinorRevision', 'VendorUrl', 'ProductName', 'ModelName', 'UserApplicationName']
            want = dict(items)
            for i, nm in enumerate(names):
                setattr(idn, nm, want.get(i, ''))
        elif order == 'bytes':
            # values held as byte strings, unpopulated objects as empty byte strings
            want = dict(items)
            reset.set_identity([(i, want.get(i, '').encode()) for i in range(7)] + [(i, v.encode()) for i, v in items if i > 6])
        elif order == 'update':
            # configured the way servers do it, through update(): an earlier, larger configuration, objects
            # withdrawn again by blanking them, then the values of this identity
            from pymodbus.device import ModbusControlBlock
            idn = ModbusControlBlock().Identity
            idn.update(dict([(i, 'old') for i, _ in items] + [(0x90, 'gone'), (5, 'gone-too')]))
            idn.update(dict([(0x90, ''), (5, '')]))
            idn.update(dict(items))
        else:   # a previous configuration left other values behind; then re-configured
            reset.set_identity([(i, 'old') for i, _ in reversed(items)] + [(0x90, 'gone')])
            reset.set_identity(items + [(0x90, '')])
        cfg = name
        for rc in (1, 2, 3, 4):
            starts = {0}
            cat = mei.category(rc) if rc != 4 else [i for i, _ in items]
            starts.update(i for i in cat if ident.get(i))
            if order == 'asc':
                starts.update([3, 7, 0x7F, 0x80, 0xFE, 0xFF])
            for s in sorted(starts):
                chain(acc, name, order, ident, rc, s, cfg)
        if order == 'asc':
            for rc_a, rc_b in ((3, 1), (1, 3), (3, 2), (2, 3), (2, 1)):
                for abandon in (False, True):
                    interleaved(acc, name, ident, rc_a, rc_b, abandon, cfg)
    acc.inc('evaluations')


def shard(args):
    tier, k, n = args
    acc = Acc()
    for i, (name, items) in enumerate(identities(tier)):
        if i % n == k:
            explore_identity(acc, name, items)
            if not acc.samples and name.startswith('x'):
                acc.sample(dict(identity=name, objects=[(i, len(v)) for i, v in items]))
    reset.control_block()
    acc.n['states'] = len(acc.sets.pop('states', ()))
    return acc


def run(tier, seed):
    n = 16
    acc = par.run_shards(shard, [(tier, k, n) for k in range(n)])
    acc.n['traces_validated_against_impl'] = acc.n.get('chains', 0)
    return dict(acc=acc, level=LEVEL,
                coverage=dict(
                    rule='state = (identity, storage order, read code, requested object id); transition = one request through '
                         'ServerDecoder/execute/encode/ClientDecoder; non-trivial = chains of more than one page',
                    bounds='identities: all 1000 length triples over %r for objects 0-2; extended identities (objects 3-6 lengths '
                           '{0,40,122}, private 0x80/0x81/0xFF lengths {0,1,200,244}) %s; 4 identities with an unfittable object; '
                           'each stored ascending / descending / re-configured; read codes 1-4; every populated start id + 0 + 6 other ids; horizon 64 pages'
                           % (L3, 'all 41472' if tier == 'thorough' else 'every 23rd of 41472')),
                assumptions=['ref/mei.py states which objects the category contains (V1.1b3 6.21)',
                             'identity values are ASCII strings'])


def replay(w):
    acc = Acc()
    for name, items in identities('thorough'):
        if name == w['identity']:
            explore_identity(acc, name, items)
            break
    reset.control_block()
    vs = [v for v in acc.violations if v['witness'] == w]
    return bool(vs), '\n'.join('%s: %s' % (v['sig'], v['msg']) for v in vs) or 'no violation'
