"""C16 -- the asynchronous (Twisted) client matches pipelined replies by transaction id.

Explicit-state search (E1, replay mode) over event histories on the REAL
ModbusClientProtocol (TCP framing, dictionary-keyed transaction manager) and
ModbusSerClientProtocol (RTU framing, FIFO manager) attached to a recording
transport; no reactor runs.  Events: issue a request, deliver the reply of ANY
outstanding request (any order; alone or two replies in one chunk), deliver a
duplicate of an already delivered reply, deliver an unsolicited reply (unused id), deliver a reply or an
unsolicited frame in two reads with other events in between,
lose the connection (also after a local close()), issue after the loss.  The transaction-id counter starts at 0
and at 0xFFFD so that the 16-bit wrap happens inside the history.
Oracle: every deferred fires at most once and with the reply carrying the id written
for it; outstanding ids are pairwise distinct; unsolicited / duplicate replies change
no deferred; after loss every pending deferred has failed with a connection error and
later requests fail the same way.
"""
from mc.acc import Acc
from mc import par, states
from ref import adu, pdu
from harness import repo  # noqa: F401
from harness import bind, framers

from pymodbus.client.asynchronous.twisted import ModbusClientProtocol, ModbusSerClientProtocol, ModbusTcpClientProtocol
from pymodbus.exceptions import ConnectionException
from pymodbus.factory import ClientDecoder
from pymodbus.transaction import ModbusSocketFramer, ModbusRtuFramer

ID = 'C16'
LEVEL = 'model_checking'


class Transport(object):
    def __init__(self):
        self.writes = []
        self.lost = False

    def write(self, data):
        self.writes.append(bytes(data))

    def loseConnection(self):
        self.lost = True

    close = loseConnection

    def getPeer(self):
        return ('peer', 502)

    def getHost(self):
        return ('host', 1)


class World(object):
    """fresh protocol + everything observed so far"""

    def __init__(self, variant, tid0, units):
        self.allow_kept = variant.endswith('+kept')
        self.allow_cancel = variant.endswith('+cancel')
        # '+exc': the device answers with exception replies (codes 5, 2, 0x0B, 6 in turn) -- they complete their request like any reply
        self.exc = variant.endswith('+exc')
        variant = variant.replace('+kept', '').replace('+cancel', '').replace('+exc', '')
        self.variant, self.units = variant, units
        # another connection of the same application, made first and left in the middle of a reply: its receive
        # state is its own
        if variant == 'tcp-default':
            self.neighbour = ModbusTcpClientProtocol()
        elif variant in ('tcp', 'tcp-class'):
            self.neighbour = ModbusClientProtocol()
        else:
            self.neighbour = ModbusSerClientProtocol()
        self.escaped = []
        try:
            self.neighbour.makeConnection(Transport())
            self.neighbour.transaction.tid = 0x3000
            self.neighbour.read_holding_registers(0x20, 1, unit=units[0])
            self.neighbour.dataReceived(adu.build('tcp' if variant != 'rtu' else 'rtu', units[0],
                                                  pdu.encode(dict(kind='rsp', fc=3, registers=[0xBEEF])), tid=0x3001)[:5])
        except Exception as e:   # noqa
            self.escaped.append((('init',), e))
        if variant == 'tcp':
            self.p = ModbusClientProtocol(framer=ModbusSocketFramer(ClientDecoder()))
        elif variant == 'tcp-class':
            self.p = ModbusClientProtocol(framer=ModbusSocketFramer)       # the framer given as a class, as the constructor allows
        elif variant == 'tcp-default':
            self.p = ModbusTcpClientProtocol()          # the class the Twisted TCP factory path instantiates, default framer
        else:
            self.p = ModbusSerClientProtocol(framer=ModbusRtuFramer(ClientDecoder()))
        self.tr = Transport()
        self.p.makeConnection(self.tr)
        self.p.transaction.tid = tid0
        self.reqs = []            # per issued request: dict(unit, addr, wire_tid, events=[...])
        self.delivered = set()
        self.connected = True
        self.closed_locally = False
        self.kept = None
        self.partial = None
        self.partial_used = False
        self.last_tail = None

    def framing(self):
        return 'tcp' if self.variant != 'rtu' else 'rtu'

    def apply(self, ev):
        try:
            self._apply(ev)
        except Exception as e:   # noqa
            self.escaped.append((ev, e))

    def _apply(self, ev):
        kind = ev[0]
        if kind == 'req':
            i = len(self.reqs)
            unit = self.units[i % len(self.units)]
            rec = dict(unit=unit, addr=0x10 + i, events=[], wire_tid=None, after_loss=not self.connected, d=None)
            self.reqs.append(rec)
            n0 = len(self.tr.writes)
            if len(ev) > 1 and ev[1] == 'object':
                # the application builds the request object itself and keeps it (to submit it again later)
                from pymodbus.register_read_message import ReadHoldingRegistersRequest
                self.kept = ReadHoldingRegistersRequest(rec['addr'], 1, unit=unit)
                rec['kept'] = True
                d = self.p.execute(self.kept)
            elif len(ev) > 1 and ev[1] == 'unencodable':
                # a request the application got wrong (register value 70000): the call raises, nothing is sent, and the
                # requests around it are not disturbed
                rec['unencodable'] = True         # no reply will ever be due for it
                try:
                    d = self.p.write_register(rec['addr'], 70000, unit=unit)
                except Exception as e:   # noqa
                    rec['events'].append(('raised', type(e).__name__))
                    return
            elif len(ev) > 1 and ev[1] == 'again':
                rec['addr'] = self.kept.address
                rec['unit'] = self.kept.unit_id
                rec['again'] = True
                d = self.p.execute(self.kept)
            else:
                d = self.p.read_holding_registers(rec['addr'], 1, unit=unit)
            retry = len(ev) > 1 and ev[1] == 'retry'
            rec['retry'] = retry
            if len(self.tr.writes) > n0:
                p = adu.parse_one(self.framing(), self.tr.writes[-1])
                rec['wire_tid'] = p['tid'] if self.variant != 'rtu' else None

            def failed(f, rec=rec, retry=retry):
                rec['events'].append(('err', f.type.__name__))
                if retry:
                    self._apply(('req',))       # the usual retry idiom: issue the request again from the errback
            rec['d'] = d
            d.addCallbacks(lambda r, rec=rec: rec['events'].append(('ok', getattr(r, 'transaction_id', None), tuple(getattr(r, 'registers', ())) or (('exception', getattr(r, 'exception_code', None)) if getattr(r, 'function_code', 0) > 0x80 else ()))),
                           failed)
        elif kind in ('rep', 'dup'):
            self.p.dataReceived(self.reply(ev[1]))
            self.delivered.add(ev[1])
        elif kind == 'rep2':
            self.p.dataReceived(self.reply(ev[1]) + self.reply(ev[2]))
            self.delivered.update(ev[1:])
        elif kind == 'unsol':
            self.p.dataReceived(self.unsolicited())
        elif kind == 'urep':
            # an unsolicited frame and, right behind it in the same read, the reply of a pending request
            self.p.dataReceived(self.unsolicited() + self.reply(ev[1]))
            self.delivered.add(ev[1])
        elif kind == 'jrep':
            # an MBAP header announcing no PDU at all (length 0) in front of the reply, in the same read
            self.p.dataReceived(b'\x77\x70\x00\x00\x00\x00' + self.reply(ev[1]))
            self.delivered.add(ev[1])
        elif kind in ('rh', 'uh'):
            # the first bytes of a frame arrive in one read, the rest in a later one
            frame = self.reply(ev[1]) if kind == 'rh' else self.unsolicited()
            self.partial_used = self.partial_used or kind == 'uh'
            cut = 5 if self.variant != 'rtu' else 2          # RTU: right after unit id and function code
            self.partial = (kind, ev[1] if kind == 'rh' else None, frame[cut:])
            self.p.dataReceived(frame[:cut])
        elif kind == 'tail':
            k2, i, rest = self.partial
            self.partial = None
            self.last_tail = i
            self.p.dataReceived(rest)
            if k2 == 'rh':
                self.delivered.add(i)
        elif kind == 'cancel':
            # the application gives up waiting for one request (Deferred.cancel / addTimeout); its reply, if it still
            # comes, is dropped and nobody else is disturbed
            self.reqs[ev[1]]['cancelled'] = True
            self.reqs[ev[1]]['d'].cancel()
        elif kind == 'close':
            self.closed_locally = True
            self.p.close()                      # the application closes the client; the transport then reports the loss
        elif kind == 'lose':
            self.connected = False
            self.p.connectionLost('connection lost (injected)')

    def unsolicited(self):
        used = set(r['wire_tid'] for r in self.reqs)
        tid = next(t for t in (0x7777, 0x7778, 0x7779, 0x777A, 0x777B, 0x777C) if t not in used)
        return adu.build('tcp', self.units[0], pdu.encode(dict(kind='rsp', fc=3, registers=[0xDEAD])), tid=tid)

    def reply(self, i):
        r = self.reqs[i]
        body = pdu.encode(dict(kind='rsp', fc=3, registers=[0x1000 + i]))
        if self.exc:
            body = bytes([0x83, EXC_CODES[i % 4]])
        return adu.build(self.framing(), r['unit'], body, tid=r['wire_tid'] or 0)

    def outstanding(self):
        # a cancelled request is still outstanding at the device: its reply comes (in order, on a serial line)
        return [i for i, r in enumerate(self.reqs) if (not r['events'] or r.get('cancelled')) and not r['after_loss'] and i not in self.delivered]

    def canon(self):
        tm = self.p.transaction
        pend = tuple(sorted(tm.transactions)) if isinstance(tm.transactions, dict) else len(tm.transactions)
        return (self.connected, self.closed_locally, self.partial is not None, self.partial_used, getattr(self.p, '_connected', None), tm.tid, pend,
                tuple((r['wire_tid'], tuple(r['events']), r['after_loss'], i in self.delivered, r.get('retry', False), r.get('kept', False), r.get('again', False), r.get('cancelled', False)) for i, r in enumerate(self.reqs)),
                framers.buffer_bytes(self.p.framer), len(self.escaped))


def menu(w, max_out, max_req):
    ev = []
    out = w.outstanding()
    if len(w.reqs) < max_req and (len(out) < max_out or not w.connected):
        ev.append(('req',))
        if w.connected and not any(r.get('retry') for r in w.reqs):
            ev.append(('req', 'retry'))
        if w.connected and not any(r.get('unencodable') for r in w.reqs):
            ev.append(('req', 'unencodable'))
        if w.connected and w.allow_cancel and not any(r.get('cancelled') for r in w.reqs):
            for i in out:
                if not w.reqs[i]['events']:
                    ev.append(('cancel', i))
        if w.connected and w.allow_kept and w.kept is None:
            ev.append(('req', 'object'))
        if w.connected and w.allow_kept and w.kept is not None and not any(r.get('again') for r in w.reqs):
            ev.append(('req', 'again'))
    if w.connected and w.partial is not None:
        ev.append(('tail',))
        ev.append(('lose',))
        return ev
    if w.connected:
        if w.variant != 'rtu':
            for i in out[:1]:
                ev.append(('rh', i))
            if not w.partial_used:
                ev.append(('uh',))
            for i in out:
                ev.append(('rep', i))
            for i in out[:1]:
                ev.append(('urep', i))
                ev.append(('jrep', i))
            for i in out:
                for j in out:
                    if i != j:
                        ev.append(('rep2', i, j))
            for i in sorted(w.delivered):
                ev.append(('dup', i))
            ev.append(('unsol',))
        else:
            if out:
                ev.append(('rh', out[0]))                  # the reply arrives in two reads
                ev.append(('rep', out[0]))                 # a serial line answers in order
                if len(out) > 1:
                    ev.append(('rep2', out[0], out[1]))
        ev.append(('lose',))
        if not w.closed_locally:
            ev.append(('close',))
    return ev


def check(acc, w, hist, cfgname, units_class):
    wit = dict(variant=w.variant + ('+kept' if w.allow_kept else '') + ('+cancel' if w.allow_cancel else '') + ('+exc' if w.exc else ''), tid0=hist_tid0[0], units=list(w.units), history=[list(e) for e in hist])
    last = hist[-1][0] if hist else 'init'

    def bad(what, msg):
        acc.violation('C16/%s/%s/%s/%s' % (w.variant, what, last, units_class), wit, msg, cfgname)
    for ev, e in w.escaped[:1]:
        if ev == ('init',):
            bad('escape:' + type(e).__name__, 'the first five bytes of a reply on ANOTHER, fresh connection raised %r' % (e,))
    for ev, e in w.escaped[-1:]:
        if hist and ev == hist[-1]:
            bad('escape:' + type(e).__name__, 'event %r raised %r' % (ev, e))
    tids = [r['wire_tid'] for i, r in enumerate(w.reqs) if i in w.outstanding() and r['wire_tid'] is not None]
    if len(tids) != len(set(tids)):
        bad('id-reuse', 'outstanding requests share a transaction id: %r' % (tids,))
    for i, r in enumerate(w.reqs):
        oks = [e for e in r['events'] if e[0] == 'ok']
        if r.get('unencodable'):
            if len(r['events']) != 1 or r['events'][0][0] != 'raised':
                bad('double-fire', 'the request that could not be encoded shows %r' % (r['events'],))
            continue
        if r.get('cancelled'):
            if r['events'][:1] != [('err', 'CancelledError')] or len(r['events']) > 1:
                bad('double-fire', 'the cancelled request %d shows %r' % (i, r['events']))
            continue
        if len(r['events']) > 1:
            bad('double-fire', 'the deferred of request %d fired %d times: %r' % (i, len(r['events']), r['events']))
        for e in oks:
            if e[2] != ((0x1000 + i,) if not w.exc else ('exception', EXC_CODES[i % 4])) or (w.variant != 'rtu' and e[1] != r['wire_tid']):
                bad('wrong-reply', 'request %d (id %r) was completed with reply id %r registers %r' % (i, r['wire_tid'], e[1], e[2]))
        if oks and i not in w.delivered:
            bad('wrong-reply', 'request %d completed although its reply was never delivered' % i)
        just = hist and ((hist[-1][0] in ('rep', 'rep2', 'dup', 'urep', 'jrep') and i in hist[-1][1:]) or (hist[-1][0] == 'tail' and i in w.delivered and w.last_tail == i))
        if just and i in w.delivered and not r['events'] and not r['after_loss'] and w.connected:
            bad('lost-deferred', 'the reply of request %d was delivered but its deferred never fired' % i)
        if not w.connected and not r['events']:
            bad('not-failed-on-loss', 'connection lost but the deferred of request %d is still pending' % i)
        if r['after_loss'] and r['events'] and r['events'][0] != ('err', 'ConnectionException'):
            bad('not-failed-on-loss', 'request %d issued after the loss got %r' % (i, r['events'][0]))
        if not w.connected and r['events'] and r['events'][0][0] == 'err' and r['events'][0][1] != 'ConnectionException':
            bad('not-failed-on-loss', 'request %d failed with %s, not a connection error' % (i, r['events'][0][1]))


hist_tid0 = [0]
EXC_CODES = (5, 2, 0x0B, 6)


def explore(acc, variant, tid0, units, max_out, depth):
    hist_tid0[0] = tid0
    cfgname = '%s/tid0=%x/units=%s' % (variant, tid0, '.'.join(map(str, units)))
    units_class = 'one-unit' if len(set(units)) == 1 else 'two-units'

    def build(hist):
        w = World(variant, tid0, units)
        for ev in hist:
            w.apply(ev)
        return w

    def events(w, hist):
        return menu(w, max_out, max_out + 3)

    def chk(w, hist):
        check(acc, w, hist, cfgname, units_class)
    st = states.bfs_replay(build, events, lambda w: w.canon(), check=chk, max_depth=depth)
    acc.inc('states', st.states)
    acc.inc('transitions', st.transitions)
    acc.inc('traces_validated_against_impl', st.transitions)
    acc.inc('evaluations', st.transitions)
    acc.add('nontrivial', cfgname)
    acc.sample(dict(config=cfgname, states=st.states, transitions=st.transitions, depth=depth, max_outstanding=max_out), force=True)


def shard(args):
    acc = Acc()
    explore(acc, *args)
    return acc


def run(tier, seed):
    max_out, depth = (3, 7) if tier == 'quick' else (5, 13)
    shards = []
    for tid0 in (0, 0xFFFD):
        shards.append(('tcp', tid0, (1,), max_out, depth))
        shards.append(('tcp', tid0, (1, 2), max_out, depth))
        shards.append(('rtu', tid0, (1,), max_out, depth))
    shards.append(('tcp-default', 0, (1,), max_out, depth))
    shards.append(('tcp-class', 0, (1,), max_out, depth))
    shards.append(('tcp+kept', 0, (1, 2), 3, 7 if tier == 'quick' else 9))      # the application keeps a request object and submits it twice
    shards.append(('rtu+kept', 0, (1,), 3, 7 if tier == 'quick' else 9))
    shards.append(('tcp+cancel', 0, (1,), 3, 6 if tier == 'quick' else 8))     # the application cancels one pending request
    shards.append(('rtu+cancel', 0, (1,), 3, 6 if tier == 'quick' else 8))
    shards.append(('tcp+exc', 0, (1, 2), 3, 6 if tier == 'quick' else 7))        # the device answers with exception replies
    shards.append(('rtu+exc', 0, (1,), 3, 6 if tier == 'quick' else 7))
    acc = par.run_shards(shard, shards)
    he = None if acc.n.get('states', 0) > 200 else 'vacuous: too few states'
    return dict(acc=acc, level=LEVEL, harness_error=he,
                coverage=dict(
                    rule='state = canonical form of the real protocol (connected flags, id counter, pending map, per-request deferred history, receive buffer); '
                         'transition = one event applied to a freshly rebuilt protocol with the history replayed; non-trivial = configurations',
                    bounds='TCP variant with one unit and with two alternating units, RTU/FIFO variant; id counter starting at 0 and 0xFFFD; <= %d outstanding requests; '
                           'all event histories to depth %d; variants: kept request object, cancelled request, exception replies (codes 5, 2, 0x0B, 6)' % (max_out, depth)),
                assumptions=['no reactor: the transport is a recording object and events are delivered synchronously',
                             'a serial reply carries no transaction id, so unsolicited/duplicate replies are not expressible for the FIFO variant'])


def replay(w):
    acc = Acc()
    hist_tid0[0] = w['tid0']
    world = World(w['variant'], w['tid0'], tuple(w['units']))
    for ev in w['history']:
        world.apply(tuple(ev))
    check(acc, world, [tuple(e) for e in w['history']], 'replay', 'one-unit' if len(set(w['units'])) == 1 else 'two-units')
    return bool(acc.violations), '\n'.join('%s: %s' % (v['sig'], v['msg']) for v in acc.violations) + '\nrequests: %r' % (
        [(r['wire_tid'], r['events']) for r in world.reqs],)
