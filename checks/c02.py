"""C02 -- encode/decode are mutual inverses and encoding is pure.

(a) Round trip / fixed point over the C01 alphabets: D(fc + e(m)) has m's class
    and fields, and e(D(fc + e(m))) == e(m), through the real decoder factories.
(b) Explicit-state search over call histories on ONE object: operations
    e = encode(), d(x) = decode(body x) for two bodies of that class; every state
    reached by any history up to the depth bound is checked for
      purity      -- two consecutive encodes give identical bytes,
      no-accumulate -- the public fields after d(x) equal those of a FRESH object
                     after d(x), whatever happened before (differential oracle),
      re-encode   -- the first encode after d(x) equals that of the fresh object.
"""
import copy

from mc.acc import Acc
from mc import par, states
from ref import pdu
from harness import bind, gen, framers
from checks.c01 import norm, first_diff

ID = 'C02'
LEVEL = 'model_checking'


def classes():
    out = []
    for kind, fc in gen.CLASSES:
        if fc == 8:
            for sub in gen.DIAG_SUBS + [gen.DIAG_UNASSIGNED[0]]:
                if sub == 4 and kind == 'rsp':
                    continue
                out.append((kind, fc, sub))
        else:
            out.append((kind, fc, None))
    return out


def msgs_of(kind, fc, sub, tier):
    for m in gen.messages(kind, fc, tier):
        if sub is None or m.get('sub') == sub:
            yield m


def image(o):
    try:
        return framers._freeze(norm(bind.to_msg(o)))
    except framers.UnknownState:
        raise
    except Exception as e:   # noqa
        return ('unreadable', type(e).__name__)


def _freeze_vars(o):
    out = []
    for k, v in sorted(vars(o).items()):
        try:
            out.append((k, framers._freeze(v)))
        except framers.UnknownState:
            out.append((k, ('opaque', type(v).__name__)))
    return tuple(out)


def roundtrip(acc, m, side, cname):
    dec = framers.decoder(side)
    try:
        o = bind.to_obj(m)
        b1 = bind.pdu_bytes(o)
        b1b = bind.pdu_bytes(o)
    except Exception as e:   # noqa
        acc.violation('C02/%s/roundtrip/raise:%s' % (cname, type(e).__name__),
                      dict(cls=cname, side=side, pdu=pdu.encode(m).hex(), part='rt'), repr(e)[:100], cname)
        return
    wit = dict(cls=cname, side=side, pdu=pdu.encode(m).hex(), part='rt')
    if b1 != b1b:
        acc.violation('C02/%s/purity/encode-twice' % cname, wit, 'second encode() of the same object differs: %s vs %s'
                      % (b1.hex()[:60], b1b.hex()[:60]), cname)
    try:
        d = dec.decode(b1)
    except Exception as e:   # noqa
        acc.violation('C02/%s/roundtrip/raise:%s' % (cname, type(e).__name__), wit, 'decode(encode(m)) raised %r' % e, cname)
        return
    if d is None:
        acc.violation('C02/%s/roundtrip/none' % cname, wit, 'decode(encode(m)) returned None', cname)
        return
    if type(d) is not type(o):
        acc.violation('C02/%s/roundtrip/class' % cname, wit, 'decoded class %s' % type(d).__name__, cname)
        return
    try:
        a, b = norm(bind.to_msg(d)), norm(bind.to_msg(o))
    except Exception as e:   # noqa
        acc.violation('C02/%s/roundtrip/fields-unreadable' % cname, wit, repr(e)[:100], cname)
        return
    if m['kind'] == 'req' and m['fc'] == 0x0F:
        pass
    df = first_diff(a, b)
    if df:
        acc.violation('C02/%s/roundtrip/%s' % (cname, df), wit,
                      'field %s: original %s decoded %s' % (df, str(b.get(df))[:50], str(a.get(df))[:50]), cname)
    try:
        b2 = bind.pdu_bytes(d)
        b3 = bind.pdu_bytes(d)
    except Exception as e:   # noqa
        acc.violation('C02/%s/fixpoint/raise:%s' % (cname, type(e).__name__), wit, repr(e)[:100], cname)
        return
    if b2 != b1:
        acc.violation('C02/%s/fixpoint/bytes' % cname, wit, 're-encoding the decoded object gives %s, original %s'
                      % (b2.hex()[:60], b1.hex()[:60]), cname)
    if b3 != b2:
        acc.violation('C02/%s/purity/encode-decoded-twice' % cname, wit, 'encoding a freshly decoded object twice differs', cname)
    # the application does what it likes with the lists of a message it decoded (trims, flips, appends): a later
    # decode of the same bytes gives the same message again
    touched = False
    for k, v in list(vars(d).items()):
        if isinstance(v, list) and v:
            v[:] = [(not x) if isinstance(x, bool) else x for x in reversed(v)] + [v[0]]
            touched = True
        elif isinstance(v, dict) and v:
            v.clear()
            touched = True
    if touched:
        try:
            d2 = dec.decode(b1)
            a2 = norm(bind.to_msg(d2))
        except Exception as e:   # noqa
            acc.violation('C02/%s/accumulate/decode-after-caller-edit' % cname, wit, 'second decode raised %r' % e, cname)
            return
        if first_diff(a2, a):
            acc.violation('C02/%s/accumulate/decode-after-caller-edit' % cname, wit,
                          'after the caller edited the lists of the first decoded message, the same bytes decode with field %s = %s'
                          % (first_diff(a2, a), str(a2.get(first_diff(a2, a)))[:50]), cname)


def histories(acc, m0, bodies, side, cname, depth):
    """BFS over call histories on one object (snapshot = deep copy per state)."""
    try:
        base = bind.to_obj(m0)
    except Exception:   # noqa
        return
    cls = type(base)
    # differential expectation: fresh object, decode body x
    fresh = {}
    for i, x in enumerate(bodies):
        f = cls.__new__(cls)
        f.__dict__.update(copy.deepcopy(vars(bind.to_obj(m0))))
        f2 = framers.decoder(side).decode(x)   # through the factory: really fresh
        if f2 is None:
            return
        try:
            fresh[i] = (image(f2), bind.pdu_bytes(copy.deepcopy(f2)))
        except Exception:   # noqa
            return
    reps = {}          # state -> history reaching it (objects are rebuilt by replaying it: no reliance on deepcopy)

    def key(o, last):
        return (_freeze_vars(o), last)

    def rebuild(hist):
        o = bind.to_obj(m0)
        for ev in hist:
            if ev == 'e':
                bind.pdu_bytes(o)
            else:
                o.decode(bodies[int(ev[1:])][1:])
        return o

    k0 = key(base, None)
    reps[k0] = ()
    wit0 = dict(cls=cname, side=side, m0=pdu.encode(m0).hex(), bodies=[x.hex() for x in bodies], part='hist')
    img_of = {}

    def events(s):
        return ['e'] + ['d%d' % i for i in range(len(bodies))]

    def step(s, ev):
        o = rebuild(reps[s])
        obs = None
        try:
            if ev == 'e':
                b = bind.pdu_bytes(o)
                obs = ('e', b)
                ns = key(o, ('e', b))
            else:
                i = int(ev[1:])
                o.decode(bodies[i][1:])
                obs = ('d', i)
                ns = key(o, ('d', i))
                img_of[ns] = image(o)
        except Exception as e:   # noqa
            return None, ('raise', type(e).__name__, repr(e)[:80])
        if ns not in reps:
            reps[ns] = reps[s] + (ev,)
        return ns, obs

    def on_edge(s, ev, nxt, obs, path):
        hist = list(path(s)) + [ev]
        w = dict(wit0, history=hist)
        if obs and obs[0] == 'raise':
            acc.violation('C02/%s/history/raise:%s' % (cname, obs[1]), w, obs[2], cname)
            return
        last = s[1]
        if ev == 'e':
            if last and last[0] == 'e' and last[1] != obs[1]:
                acc.violation('C02/%s/purity/encode-twice' % cname, w,
                              'consecutive encodes differ: %s then %s' % (last[1].hex()[:50], obs[1].hex()[:50]), cname)
            if last and last[0] == 'd' and obs[1] != fresh[last[1]][1]:
                acc.violation('C02/%s/accumulate/re-encode' % cname, w,
                              'encode after decode(x%d) gives %s, a fresh object gives %s'
                              % (last[1], obs[1].hex()[:50], fresh[last[1]][1].hex()[:50]), cname)
        else:
            i = obs[1]
            img = img_of[nxt]
            if img != fresh[i][0]:
                acc.violation('C02/%s/accumulate/fields' % cname, w,
                              'fields after decode(x%d) differ from those of a fresh object decoding the same body' % i, cname)

    st, _ = states.bfs_snapshot([k0], events, step, on_edge=on_edge, max_depth=depth)
    acc.inc('states', st.states)
    acc.inc('transitions', st.transitions)
    acc.inc('traces_validated_against_impl', st.transitions)
    acc.inc('histories_objects')
    if len(acc.samples) < 2:
        acc.sample(dict(wit0, states=st.states, transitions=st.transitions))


def pick(seq, k):
    seq = list(seq)
    if len(seq) <= k:
        return seq
    step = len(seq) / float(k)
    return [seq[int(i * step)] for i in range(k)]


def shard(args):
    kind, fc, sub, tier = args
    acc = Acc()
    side = 'req' if kind == 'req' else 'rsp'
    ms = list(msgs_of(kind, fc, sub, 'quick'))
    if kind == 'exc':
        ms = [m for m in ms if m['fc'] in (1, 3, 0x10, 0x2B, 0x7F) or m['code'] in (1, 2, 3, 4)] if tier == 'quick' else ms
    nontriv = set()
    ms = [m for m in ms if len(pdu.encode(m)) <= 253]       # a message is at most one 253-byte PDU
    for m in (ms if tier == 'quick' else msgs_of(kind, fc, sub, tier)):
        raw = pdu.encode(m)
        if len(raw) > 253:
            continue
        cname = bind.cls_name(m)
        acc.inc('evaluations')
        roundtrip(acc, m, side, cname)
        nontriv.add(raw)
    acc.inc('distinct_pdus', len(nontriv))
    # histories
    k = 6 if tier == 'quick' else 40
    depth = 3 if tier == 'quick' else 5
    sel = pick(ms, k)
    if kind == 'exc':     # decode() of a body cannot change the function code: keep it fixed per object
        sel = pick([m for m in ms if m['fc'] == 3], k)
    for i, m0 in enumerate(sel):
        x1 = pdu.encode(sel[(i + 1) % len(sel)])
        x2 = pdu.encode(sel[(i + 2) % len(sel)])
        bodies = [x1] if x1 == x2 else [x1, x2]
        histories(acc, m0, bodies, side, bind.cls_name(m0), depth)
    acc.add('classes', (kind, fc, sub))
    return acc


def run(tier, seed):
    shards = [(k, fc, sub, tier) for k, fc, sub in classes()]
    acc = par.run_shards(shard, shards)
    he = None
    if acc.n.get('states', 0) < 100 or acc.count('classes') != len(shards):
        he = 'vacuous exploration'
    return dict(acc=acc, level=LEVEL, harness_error=he,
                coverage=dict(
                    distinct_nontrivial=acc.n.get('distinct_pdus', 0),
                    rule='states = distinct (all attributes of the object, last operation result) reached by encode/decode call '
                         'histories on one object; transitions = real encode()/decode() calls; plus one round-trip + fixed-point '
                         'evaluation per enumerated message (evaluations)',
                    bounds='histories over {encode, decode(x1), decode(x2)} to depth %d on %d objects per class; '
                           'round trip over the %s alphabets of harness/gen.py (the same as C01) for all %d classes (diagnostic sub-classes separately)'
                           % (3 if tier == 'quick' else 5, 6 if tier == 'quick' else 40, tier, len(shards))),
                assumptions=['purity is judged on the bytes encode() returns (private bookkeeping attributes may change)',
                             'accumulation is judged differentially against a fresh object produced by the decoder factory'])


def replay(w):
    side = w['side']
    acc = Acc()
    if w.get('part') == 'rt':
        m = pdu.decode(side, bytes.fromhex(w['pdu']))
        roundtrip(acc, m, side, w['cls'])
    else:
        m0 = pdu.decode(side, bytes.fromhex(w['m0']))
        histories(acc, m0, [bytes.fromhex(x) for x in w['bodies']], side, w['cls'], len(w['history']))
        acc.violations = [v for v in acc.violations if v['witness'].get('history') == w['history']]
    return bool(acc.violations), '\n'.join('%s: %s' % (v['sig'], v['msg']) for v in acc.violations) or 'no violation'
