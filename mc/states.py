"""E1 -- explicit-state breadth-first search over a real transition function.

No pymodbus imports.  Two modes:

bfs_snapshot(init_states, events, step, invariant, max_depth)
    A state is a hashable *snapshot* (canonical form) from which the real
    objects can be rebuilt; `step(snapshot, ev)` rebuilds the real objects,
    applies one event with the real code and returns (new_snapshot, obs).
    Because the snapshot *is* everything the objects hold, two paths that reach
    the same snapshot have the same futures, so the search over the graph covers
    every path (e.g. every chunking of a byte stream).

bfs_replay(build, events, canon, invariant, max_depth)
    For objects that cannot be snapshotted (tasks, deferreds, handlers):
    a state is the event history; `build(hist)` constructs fresh real objects
    and replays the history; `canon(objs)` gives the de-duplication key.

Both return a Stats object with states, transitions, max_depth, closed.
"""
import collections


class Stats(object):
    def __init__(self):
        self.states = 0
        self.transitions = 0
        self.max_depth = 0
        self.closed = True
        self.terminal_obs = set()

    def as_dict(self):
        return dict(states=self.states, transitions=self.transitions,
                    max_depth=self.max_depth, closed=self.closed)


def bfs_snapshot(init_states, events, step, on_edge=None, on_state=None,
                 max_depth=None, max_states=None):
    """Explore the graph.  Parents are kept so the shortest event path to any
    state can be reconstructed (path(s))."""
    st = Stats()
    parent = {}
    depth = {}
    frontier = collections.deque()
    for s in init_states:
        if s not in parent:
            parent[s] = None
            depth[s] = 0
            frontier.append(s)
            if on_state:
                on_state(s, ())
    st.states = len(parent)

    def path(s):
        evs = []
        while parent[s] is not None:
            s, ev = parent[s]
            evs.append(ev)
        evs.reverse()
        return evs

    while frontier:
        s = frontier.popleft()
        d = depth[s]
        if max_depth is not None and d >= max_depth:
            if any(True for _ in events(s)):
                st.closed = False
            continue
        for ev in events(s):
            nxt, obs = step(s, ev)
            st.transitions += 1
            if on_edge:
                on_edge(s, ev, nxt, obs, path)
            if nxt is None:
                continue
            if nxt not in parent:
                parent[nxt] = (s, ev)
                depth[nxt] = d + 1
                if d + 1 > st.max_depth:
                    st.max_depth = d + 1
                st.states += 1
                if on_state:
                    on_state(nxt, path)
                if max_states is not None and st.states >= max_states:
                    st.closed = False
                    return st, path
                frontier.append(nxt)
    return st, path


def bfs_replay(build, events, canon, check=None, max_depth=6, max_states=None):
    """State = event history.  `build(hist)` -> fresh objs with hist replayed.
    `events(objs, hist)` -> menu.  `canon(objs)` -> hashable key.
    `check(objs, hist)` is evaluated on every state (invariant)."""
    st = Stats()
    objs = build(())
    seen = {canon(objs)}
    if check:
        check(objs, ())
    frontier = collections.deque([()])
    st.states = 1
    while frontier:
        hist = frontier.popleft()
        if len(hist) >= max_depth:
            st.closed = False
            continue
        objs = build(hist)
        menu = list(events(objs, hist))
        for ev in menu:
            h2 = hist + (ev,)
            o2 = build(h2)
            st.transitions += 1
            if check:
                check(o2, h2)
            k = canon(o2)
            if k not in seen:
                seen.add(k)
                st.states += 1
                if len(h2) > st.max_depth:
                    st.max_depth = len(h2)
                if max_states is not None and st.states >= max_states:
                    st.closed = False
                    return st
                frontier.append(h2)
    return st
