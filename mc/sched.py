"""E3 -- controlled scheduler for real threads (baton passing).

Real threading.Thread objects run the real library code, but only one of them
runs at a time: a thread runs until it reaches a scheduling point
(`sched.point(label)`), then hands the baton back to the scheduler, which picks
the next thread.  A schedule is the list of picks (small ints) -- the replay
artefact.  All schedules with at most `bound` preemptions are enumerated by
explore(); a preemption is a switch away from a thread that could have gone on.

A thread waiting for an SLock held by another thread is *not enabled* (it is
never a hung OS thread).  "No enabled thread while some thread is unfinished"
is reported as deadlock; exceeding the step horizon is reported as hang.

No pymodbus imports.
"""
import threading


class _Abort(BaseException):
    pass


class ReplayDivergence(Exception):
    pass


class _T(object):
    def __init__(self, tid, fn):
        self.tid = tid
        self.fn = fn
        self.go = threading.Semaphore(0)
        self.done = False
        self.result = None
        self.error = None
        self.waiting = None     # predicate: enabled iff waiting is None or waiting()
        self.label = 'start'
        self.thread = None


class Sched(object):
    def __init__(self, prefix=(), horizon=2000):
        self.prefix = list(prefix)
        self.horizon = horizon
        self.threads = []
        self.back = threading.Semaphore(0)
        self.current = None
        self.choices = []
        self.menus = []        # (n_enabled, running_still_enabled)
        self.trace = []        # (tid, label) executed steps
        self.abort = False
        self.outcome = None    # 'ok' | 'deadlock' | 'hang' | 'stuck'
        self.stuck_after = 20.0
        self._local = threading.local()

    # -- API for harness -------------------------------------------------------
    def spawn(self, fn):
        t = _T(len(self.threads), fn)
        self.threads.append(t)
        return t.tid

    def me(self):
        return getattr(self._local, 't', None)

    def point(self, label, wait_for=None):
        """Scheduling point.  Called from a controlled thread; from any other
        thread (e.g. the harness's main thread during set-up) it is a no-op."""
        t = self.me()
        if t is None:
            return
        if self.abort:
            raise _Abort()
        t.label = label
        t.waiting = wait_for
        self.back.release()
        t.go.acquire()
        t.waiting = None
        if self.abort:
            raise _Abort()

    # -- running ------------------------------------------------------------------
    def _body(self, t):
        self._local.t = t
        t.go.acquire()
        try:
            if not self.abort:
                t.result = t.fn()
        except _Abort:
            pass
        except BaseException as e:   # noqa
            t.error = e
        t.done = True
        self.back.release()

    def _enabled(self):
        out = []
        for t in self.threads:
            if t.done:
                continue
            if t.waiting is None or t.waiting():
                out.append(t)
        return out

    def run(self):
        for t in self.threads:
            t.thread = threading.Thread(target=self._body, args=(t,))
            t.thread.daemon = True
            t.thread.start()
        steps = 0
        while True:
            if all(t.done for t in self.threads):
                self.outcome = 'ok'
                break
            en = self._enabled()
            if not en:
                self.outcome = 'deadlock'
                break
            if steps >= self.horizon:
                self.outcome = 'hang'
                break
            # canonical order: running thread first if still enabled, then ids
            cur = self.current
            still = cur is not None and cur in en
            if still:
                en = [cur] + [t for t in en if t is not cur]
            i = len(self.choices)
            if i < len(self.prefix):
                c = self.prefix[i]
                if c >= len(en):
                    self._kill()
                    raise ReplayDivergence('pick %d of %d at step %d' % (c, len(en), i))
            else:
                c = 0
            self.choices.append(c)
            self.menus.append((len(en), still))
            t = en[c]
            self.current = t
            self.trace.append((t.tid, t.label))
            steps += 1
            t.go.release()
            if not self.back.acquire(timeout=self.stuck_after):
                # the thread blocked inside a real OS primitive (e.g. an uninstrumented lock) instead of
                # reaching a scheduling point: the schedule cannot continue
                self.outcome = 'stuck'
                break
        if self.outcome != 'ok':
            self._kill()
        for t in self.threads:
            t.thread.join(5 if self.outcome != 'stuck' else 0.05)
        return self.outcome

    def _kill(self):
        self.abort = True
        for t in self.threads:
            if not t.done:
                t.go.release()

    def preemptions(self):
        return sum(1 for c, (n, still) in zip(self.choices, self.menus) if c and still)


class SLock(object):
    """Re-entrant lock whose acquire/release are scheduling points."""

    def __init__(self, sched, name='lock'):
        self.sched = sched
        self.name = name
        self.owner = None
        self.depth = 0
        self.log = None

    def acquire(self, blocking=True, timeout=-1):
        t = self.sched.me()
        if t is None:      # uncontrolled thread (set-up code)
            self.depth += 1
            return True
        if self.owner is not t:
            self.sched.point(self.name + '.acquire',
                             wait_for=lambda: self.owner is None or self.owner is t)
            assert self.owner is None or self.owner is t
        self.owner = t
        self.depth += 1
        return True

    def release(self):
        t = self.sched.me()
        if t is None:
            self.depth -= 1
            return
        if self.owner is not t:
            raise RuntimeError('release of un-owned lock')
        self.depth -= 1
        if self.depth == 0:
            self.owner = None
            self.sched.point(self.name + '.release')

    __enter__ = acquire

    def __exit__(self, *a):
        self.release()


def explore(make, bound, horizon=2000, max_execs=None, on_exec=None):
    """make(sched) registers threads (sched.spawn) and returns a harness object;
    after sched.run(), on_exec(sched, harness) judges the execution.
    Enumerates all schedules with <= bound preemptions."""
    stats = dict(executions=0, steps=0, max_steps=0, capped=False,
                 deadlocks=0, hangs=0)
    stack = [[]]
    while stack:
        prefix = stack.pop()
        s = Sched(prefix, horizon)
        h = make(s)
        s.run()
        stats['executions'] += 1
        stats['steps'] += len(s.choices)
        stats['max_steps'] = max(stats['max_steps'], len(s.choices))
        if s.outcome == 'deadlock':
            stats['deadlocks'] += 1
        if s.outcome == 'hang':
            stats['hangs'] += 1
        if on_exec:
            on_exec(s, h)
        if max_execs is not None and stats['executions'] >= max_execs:
            stats['capped'] = True
            break
        # cost of the prefix
        cost = 0
        for c, (n, still) in zip(s.choices[:len(prefix)], s.menus[:len(prefix)]):
            if c and still:
                cost += 1
        ext = []
        for i in range(len(prefix), len(s.choices)):
            n, still = s.menus[i]
            extra = 1 if still else 0
            if cost + extra <= bound:
                for alt in range(1, n):
                    ext.append(s.choices[:i] + [alt])
        stack.extend(reversed(ext))
    return stats
