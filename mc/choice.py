"""E2 -- stateless exploration of environment choices with a deviation bound.

The harness calls env.choose(n, label) at every environment decision.  Choice 0
is the default ("healthy") answer and costs nothing; any other choice costs one
deviation.  explore() runs every execution whose total deviation count is
<= bound, depth-first over choice prefixes (iterative context bounding applied
to environment answers).  Executions always run to completion.

No pymodbus imports.
"""


class ReplayDivergence(Exception):
    pass


class HorizonHit(Exception):
    pass


class Env(object):
    def __init__(self, prefix, horizon=200):
        self.prefix = list(prefix)
        self.choices = []      # choice taken at each point
        self.menus = []        # menu size at each point
        self.labels = []
        self.horizon = horizon

    def choose(self, n, label=''):
        """Return an int in range(n)."""
        i = len(self.choices)
        if i >= self.horizon:
            raise HorizonHit(label)
        if i < len(self.prefix):
            c = self.prefix[i]
            if c >= n:
                raise ReplayDivergence('choice %d out of range %d at point %d (%s)'
                                       % (c, n, i, label))
        else:
            c = 0
        self.choices.append(c)
        self.menus.append(n)
        self.labels.append(label)
        return c

    def deviations(self):
        return sum(1 for c in self.choices if c)


def explore(run, bound, horizon=200, max_execs=None, on_exec=None):
    """run(env) -> observation.  Explores all executions with <= bound deviations.
    Returns dict(executions, points, max_points, capped)."""
    stats = dict(executions=0, points=0, max_points=0, capped=False)
    stack = [[]]
    while stack:
        prefix = stack.pop()
        env = Env(prefix, horizon)
        obs = run(env)
        if len(env.choices) < len(prefix):
            raise ReplayDivergence('execution ended before prefix %r was consumed' % (prefix,))
        stats['executions'] += 1
        stats['points'] += len(env.choices)
        stats['max_points'] = max(stats['max_points'], len(env.choices))
        if on_exec:
            on_exec(env, obs)
        if max_execs is not None and stats['executions'] >= max_execs:
            stats['capped'] = True
            break
        base_dev = sum(1 for c in prefix if c)
        # alternatives only at points after the prefix (points inside the
        # prefix were branched by an ancestor)
        ext = []
        dev = base_dev
        for i in range(len(prefix), len(env.choices)):
            if dev + 1 <= bound:
                for alt in range(1, env.menus[i]):
                    ext.append(env.choices[:i] + [alt])
            # choices after the prefix are all 0, dev unchanged
        # push in reverse so that the simplest alternative is explored first
        stack.extend(reversed(ext))
    return stats
