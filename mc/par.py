"""Deterministic sharding of independent sub-spaces over worker processes.

run_shards(fn, shards, workers) calls fn(shard) -> Acc in a fork pool and merges
the Accs *in shard order*, so the merged result does not depend on worker
timing.  Workers are forked once; nothing is forked per execution.
"""
import multiprocessing
import os
import random
import sys
import traceback

from .acc import Acc, ViolationBudget


def _call(args):
    fn, shard = args
    try:
        return ('ok', fn(shard))
    except ViolationBudget as b:
        return ('ok', b.acc)
    except BaseException:   # noqa
        return ('err', 'shard %r\n%s' % (shard, traceback.format_exc()))


class HarnessError(Exception):
    pass


def run_shards(fn, shards, workers=None):
    shards = list(shards)
    if workers is None:
        workers = int(os.environ.get('VERIF_WORKERS', '0')) or min(16, os.cpu_count() or 1)
    workers = max(1, min(workers, len(shards)))
    acc = Acc()
    # VERIF_SEED only permutes the order in which shards are handed to the workers; results are
    # merged in the original shard order, so the explored set and the verdict cannot depend on it
    order = list(range(len(shards)))
    random.Random(int(os.environ.get('VERIF_SEED', '0') or 0)).shuffle(order)
    if workers == 1:
        res = [_call((fn, shards[i])) for i in order]
    else:
        ctx = multiprocessing.get_context('fork')
        with ctx.Pool(workers) as pool:
            res = pool.map(_call, [(fn, shards[i]) for i in order], chunksize=1)
    results = [None] * len(shards)
    for i, r in zip(order, res):
        results[i] = r
    for tag, r in results:
        if tag == 'err':
            raise HarnessError(r)
        acc.merge(r)
    return acc
