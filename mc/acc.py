"""Result accumulator shared by all checks (no pymodbus imports).

An Acc collects, for one check run (or one shard of it):
  * integer counters (summed when shards are merged),
  * named sets of small hashable items (unioned; used for "distinct ..." counts),
  * violations  -- dicts {sig, cfg, witness, msg}
  * samples     -- literal explored cases, capped
  * caps        -- names of caps/bounds that were hit (so a run never calls itself
                   exhaustive when it was cut short)
"""
import hashlib
import json


def jdump(obj):
    return json.dumps(obj, sort_keys=True, separators=(',', ':'), default=_default)


def _default(o):
    if isinstance(o, (bytes, bytearray)):
        return o.hex()
    if isinstance(o, (set, frozenset)):
        return sorted(o)
    if isinstance(o, tuple):
        return list(o)
    return repr(o)


def wid(witness):
    """Short stable id of a witness (configuration + event list)."""
    return hashlib.sha1(jdump(witness).encode()).hexdigest()[:12]


class ViolationBudget(BaseException):
    """raised inside a shard once it has collected NEW_BUDGET violations that are not listed known findings:
    a tree that breaks the property that badly often also makes the search space blow up (states that no longer
    merge); the verdict is settled, so the shard stops.  Never raised on a tree without unlisted violations."""

    def __init__(self, acc):
        BaseException.__init__(self, 'violation budget')
        self.acc = acc


IS_KNOWN = None          # installed by the runner: f(violation dict) -> bool
NEW_BUDGET = 150


class Acc(object):
    MAX_SAMPLES = 12
    MAX_VIOL_PER_SIG = 4000

    def __init__(self):
        self.n = {}
        self.sets = {}
        self.violations = []
        self._viol_seen = set()
        self._viol_per_sig = {}
        self.samples = []
        self.caps = []
        self.notes = []

    # -- counters -----------------------------------------------------------
    def inc(self, key, by=1):
        self.n[key] = self.n.get(key, 0) + by

    def add(self, setname, item):
        self.sets.setdefault(setname, set()).add(item)

    def sample(self, item, force=False):
        if force or len(self.samples) < self.MAX_SAMPLES:
            self.samples.append(item)

    def cap(self, name):
        if name not in self.caps:
            self.caps.append(name)

    # -- violations -----------------------------------------------------------
    def violation(self, sig, witness, msg, cfg=''):
        """sig: structured signature string; witness: json-able minimal witness;
        cfg: key of the sub-space (stream / configuration) the witness belongs to."""
        w = wid({'sig': sig, 'w': witness})
        if w in self._viol_seen:
            return
        self._viol_seen.add(w)
        k = self._viol_per_sig.get(sig, 0)
        self._viol_per_sig[sig] = k + 1
        v = {'sig': sig, 'cfg': cfg, 'wid': w, 'witness': witness, 'msg': msg}
        self.violations.append(v)
        if IS_KNOWN is not None and NEW_BUDGET and not IS_KNOWN(v):
            self._new = getattr(self, '_new', 0) + 1
            if self._new >= NEW_BUDGET:
                self.cap('stopped after %d unlisted violations in one shard' % NEW_BUDGET)
                raise ViolationBudget(self)

    # -- merging ---------------------------------------------------------------
    def merge(self, other):
        for k, v in other.n.items():
            self.n[k] = self.n.get(k, 0) + v
        for k, v in other.sets.items():
            self.sets.setdefault(k, set()).update(v)
        for v in other.violations:
            if v['wid'] not in self._viol_seen:
                self._viol_seen.add(v['wid'])
                self.violations.append(v)
        for s in other.samples:
            self.sample(s)
        for c in other.caps:
            self.cap(c)
        self.notes.extend(other.notes)
        return self

    def count(self, setname):
        return len(self.sets.get(setname, ()))
