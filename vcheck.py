#!/venv/bin/python
"""Runner for the pymodbus model-checking checks.

  vcheck.py run <ID> [--tier quick|thorough]   run one property's check
  vcheck.py replay <file>                      re-run one recorded witness on the real code
  vcheck.py selftest                           reference-model vectors, explorer unit tests
  vcheck.py rebaseline <ID> [--tier ...]       (maintenance, never run by a check) rewrite the
                                               witness lists of the findings already listed
                                               as open in known_findings.json

Exit codes of `run`: 0 property held on everything explored (KNOWN-FINDING lines
possible), 1 at least one unlisted violation (VIOLATION lines), 2 harness error.
"""
import fnmatch
import importlib
import json
import os
import sys
import time
import traceback

HERE = os.path.dirname(os.path.abspath(__file__))
PY = '/venv/bin/python'


def _reexec():
    if os.environ.get('PYTHONHASHSEED') != '0' or not sys.flags.dont_write_bytecode:
        env = dict(os.environ, PYTHONHASHSEED='0', PYTHONDONTWRITEBYTECODE='1')
        os.execve(PY, [PY, '-B', os.path.abspath(__file__)] + sys.argv[1:], env)


def load_known():
    with open(os.path.join(HERE, 'known_findings.json')) as f:
        k = json.load(f)
    for e in k.get('open', []):
        p = os.path.join(HERE, 'known', e['id'] + '.wids')
        e['_wids'] = None
        if os.path.exists(p):
            with open(p) as f:
                e['_wids'] = set(f.read().split())
    return k


def match_known(known, prop, v):
    """A violation is a known finding iff an open entry of this property lists
    its signature and (when the entry carries a witness list) its witness id."""
    for e in known.get('open', []):
        if e['property'] != prop:
            continue
        sigs = e.get('signatures') or [e['signature']]
        if not any(fnmatch.fnmatchcase(v['sig'], s) for s in sigs):
            continue
        if e['_wids'] is not None and v['wid'] not in e['_wids']:
            continue
        return e
    return None


def write_evidence(prop, tier, seed, level, coverage, assumptions, wall, nviol):
    ev = dict(property_id=prop, tier=tier, seed=seed, level=level, coverage=coverage,
              assumptions=assumptions, wall_s=round(wall, 3), violations=nviol)
    evdir = os.path.join(HERE, 'evidence')
    if os.path.realpath(os.environ.get('VERIF_REPO', '/repo')) != '/repo':
        evdir = '/tmp/verif-scratch-evidence'     # runs against scratch copies never touch the real evidence
    os.makedirs(evdir, exist_ok=True)
    p = os.path.join(evdir, prop + '.json')
    tmp = p + '.tmp'
    with open(tmp, 'w') as f:
        json.dump(ev, f, indent=1, sort_keys=True, default=_jd)
        f.write('\n')
    os.replace(tmp, p)
    return p


def _jd(o):
    if isinstance(o, (bytes, bytearray)):
        return o.hex()
    if isinstance(o, (set, frozenset)):
        return sorted(o)
    return repr(o)


def cmd_run(prop, tier, rebaseline=False):
    seed = int(os.environ.get('VERIF_SEED', '0') or 0)
    sys.path.insert(0, HERE)
    t0 = time.time()
    known = load_known()
    if not rebaseline:
        from mc import acc as _acc
        _acc.IS_KNOWN = lambda v: match_known(known, prop, v) is not None
    try:
        mod = importlib.import_module('checks.' + prop.lower())
        res = mod.run(tier, seed)
        dbg = None
        if tier == 'thorough' and os.environ.get('VERIF_LOG_DEBUG') != '1':
            # second pass: the quick exploration again with the library's debug logging switched on (the code behind
            # `if _logger.isEnabledFor(DEBUG)` and the formatting of every log call then runs too)
            from harness.repo import DebugLogging
            with DebugLogging():
                dbg = mod.run('quick', seed)
            seen = set(v['wid'] for v in res['acc'].violations)
            extra = 0
            for v in dbg['acc'].violations:
                if v['wid'] not in seen:
                    v = dict(v, env='debug-logging')
                    res['acc'].violations.append(v)
                    extra += 1
            res.setdefault('coverage', {})['debug_logging_pass'] = dict(
                tier='quick', evaluations=dbg['acc'].n.get('evaluations', 0), violations_only_seen_there=extra,
                harness_error=dbg.get('harness_error'))
            if dbg.get('harness_error') and not res.get('harness_error'):
                res['harness_error'] = 'debug-logging pass: ' + dbg['harness_error']
    except SystemExit:
        raise
    except BaseException:   # noqa
        traceback.print_exc()
        print('HARNESS-ERROR property=%s' % prop)
        return 2
    acc = res['acc']
    new, old = [], {}
    for v in acc.violations:
        e = match_known(known, prop, v)
        if e is None:
            new.append(v)
        else:
            old.setdefault(e['id'], []).append(v)
    if rebaseline:
        return _rebaseline(known, prop, acc)
    for e in known.get('open', []):
        if e['property'] == prop and e['id'] in old:
            print('KNOWN-FINDING: property=%s %s %s (witnesses this run: %d)'
                  % (prop, e['id'], e['what'], len(old[e['id']])))
    # replays for unlisted violations: one file per signature (shortest witness first)
    rc = 0
    if new:
        rc = 1
        os.makedirs(os.path.join(HERE, 'replays'), exist_ok=True)
        by_sig = {}
        for v in new:
            by_sig.setdefault(v['sig'], []).append(v)
        printed = 0
        for sig in sorted(by_sig):
            vs = sorted(by_sig[sig], key=lambda v: (len(json.dumps(v['witness'], default=_jd)), v['wid']))
            v = vs[0]
            path = os.path.join(HERE, 'replays', '%s-%s.json' % (prop, v['wid']))
            with open(path, 'w') as f:
                json.dump(dict(property=prop, sig=sig, witness=v['witness'], msg=v['msg'],
                               cfg=v['cfg'], same_signature=len(vs), **({'env': v['env']} if v.get('env') else {})), f, indent=1, default=_jd)
            if printed < 40:
                print('VIOLATION property=%s replay=%s  # %s: %s (%d witnesses)'
                      % (prop, path, sig, v['msg'][:200], len(vs)))
                printed += 1
        if len(by_sig) > printed:
            print('# ... %d further violated signatures not printed' % (len(by_sig) - printed))
    # vacuity guards / harness errors requested by the check
    for note in acc.notes:
        print('NOTE: ' + note)
    if res.get('harness_error'):
        print('HARNESS-ERROR property=%s %s' % (prop, res['harness_error']))
        rc = rc or 2
    cov = dict(res.get('coverage', {}))
    cov.setdefault('evaluations', acc.n.get('evaluations', 0))
    cov.setdefault('distinct_nontrivial', acc.count('nontrivial'))
    for k in ('states', 'transitions', 'traces_validated_against_impl'):
        if k in acc.n:
            cov.setdefault(k, acc.n[k])
    cov.setdefault('samples', acc.samples[:12])
    cov['exhaustive'] = bool(res.get('exhaustive', True)) and not acc.caps
    cov['caps_hit'] = acc.caps
    cov['counters'] = {k: v for k, v in sorted(acc.n.items())}
    cov['distinct'] = {k: len(v) for k, v in sorted(acc.sets.items())}
    cov['known_finding_witnesses'] = {k: len(v) for k, v in sorted(old.items())}
    cov['unlisted_violations'] = len(new)
    wall = time.time() - t0
    write_evidence(prop, tier, seed, res['level'], cov, res.get('assumptions', []), wall, len(new))
    print('%s tier=%s %s  wall=%.1fs  new_violations=%d known=%d'
          % (prop, tier, ' '.join('%s=%s' % (k, cov[k]) for k in
                                  ('states', 'transitions', 'evaluations', 'distinct_nontrivial')
                                  if k in cov), wall, len(new), sum(len(v) for v in old.values())))
    return rc


def _rebaseline(known, prop, acc):
    """Maintenance: rewrite known/<finding>.wids for open findings of `prop`
    from the violations of this run whose *signature* the finding lists.
    Existing ids are kept (quick + thorough runs accumulate)."""
    n = 0
    for e in known.get('open', []):
        if e['property'] != prop or not e.get('witness_lists', True):
            continue
        sigs = e.get('signatures') or [e['signature']]
        ids = set(e['_wids'] or ())
        if os.environ.get('VERIF_REBASE_RESET'):
            ids = set()
        for v in acc.violations:
            if any(fnmatch.fnmatchcase(v['sig'], s) for s in sigs):
                ids.add(v['wid'])
        os.makedirs(os.path.join(HERE, 'known'), exist_ok=True)
        with open(os.path.join(HERE, 'known', e['id'] + '.wids'), 'w') as f:
            f.write('\n'.join(sorted(ids)) + '\n')
        print('rebaselined %s: %d witness ids' % (e['id'], len(ids)))
        n += 1
    unl = [v for v in acc.violations
           if not any(fnmatch.fnmatchcase(v['sig'], s) for e in known.get('open', [])
                      if e['property'] == prop for s in (e.get('signatures') or [e['signature']]))]
    sigs = {}
    for v in unl:
        sigs.setdefault(v['sig'], []).append(v)
    for s in sorted(sigs):
        print('UNLISTED %s x%d e.g. %s' % (s, len(sigs[s]), json.dumps(sigs[s][0]['witness'], default=_jd)[:300]))
    return 0


def cmd_replay(path):
    sys.path.insert(0, HERE)
    with open(path) as f:
        r = json.load(f)
    mod = importlib.import_module('checks.' + r['property'].lower())
    if r.get('env') == 'debug-logging':
        from harness.repo import DebugLogging
        with DebugLogging():
            violated, text = mod.replay(r['witness'])
    else:
        violated, text = mod.replay(r['witness'])
    print(text)
    print('replay of %s: %s' % (path, 'VIOLATION reproduced' if violated else 'no violation'))
    return 1 if violated else 0


def cmd_selftest():
    sys.path.insert(0, HERE)
    from selftest import main
    return main()


def main(argv):
    if len(argv) < 2:
        print(__doc__)
        return 2
    cmd = argv[1]
    tier = os.environ.get('VERIF_TIER', 'quick')
    if '--tier' in argv:
        tier = argv[argv.index('--tier') + 1]
    if cmd == 'run':
        return cmd_run(argv[2].upper(), tier)
    if cmd == 'rebaseline':
        return cmd_run(argv[2].upper(), tier, rebaseline=True)
    if cmd == 'replay':
        return cmd_replay(argv[2])
    if cmd == 'selftest':
        return cmd_selftest()
    print(__doc__)
    return 2


if __name__ == '__main__':
    _reexec()
    sys.exit(main(sys.argv))
