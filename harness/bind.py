"""Binding between reference messages (ref/pdu.py dicts) and pymodbus objects.
Names and representation normalisation only -- no protocol logic.

to_obj(msg)    reference message  -> pymodbus message built with its public ctor
to_msg(obj)    pymodbus message   -> reference message (fields normalised to the
               *wire value*: bool coil -> 0xFF00/0, diagnostic data -> list of
               words, identification values -> bytes ...)
cls_name(msg)  name of the pymodbus class bound to that fc / sub-function
"""
from harness import repo  # noqa: F401  (puts the repository under test on sys.path)

import pymodbus.bit_read_message as brm
import pymodbus.bit_write_message as bwm
import pymodbus.register_read_message as rrm
import pymodbus.register_write_message as rwm
import pymodbus.diag_message as dm
import pymodbus.file_message as fm
import pymodbus.other_message as om
import pymodbus.mei_message as mm
import pymodbus.pdu as ppdu

REQ = {1: brm.ReadCoilsRequest, 2: brm.ReadDiscreteInputsRequest,
       3: rrm.ReadHoldingRegistersRequest, 4: rrm.ReadInputRegistersRequest,
       5: bwm.WriteSingleCoilRequest, 6: rwm.WriteSingleRegisterRequest,
       7: om.ReadExceptionStatusRequest, 8: dm.DiagnosticStatusRequest,
       0x0B: om.GetCommEventCounterRequest, 0x0C: om.GetCommEventLogRequest,
       0x0F: bwm.WriteMultipleCoilsRequest, 0x10: rwm.WriteMultipleRegistersRequest,
       0x11: om.ReportSlaveIdRequest, 0x14: fm.ReadFileRecordRequest,
       0x15: fm.WriteFileRecordRequest, 0x16: rwm.MaskWriteRegisterRequest,
       0x17: rrm.ReadWriteMultipleRegistersRequest, 0x18: fm.ReadFifoQueueRequest,
       0x2B: mm.ReadDeviceInformationRequest}
RSP = {1: brm.ReadCoilsResponse, 2: brm.ReadDiscreteInputsResponse,
       3: rrm.ReadHoldingRegistersResponse, 4: rrm.ReadInputRegistersResponse,
       5: bwm.WriteSingleCoilResponse, 6: rwm.WriteSingleRegisterResponse,
       7: om.ReadExceptionStatusResponse, 8: dm.DiagnosticStatusResponse,
       0x0B: om.GetCommEventCounterResponse, 0x0C: om.GetCommEventLogResponse,
       0x0F: bwm.WriteMultipleCoilsResponse, 0x10: rwm.WriteMultipleRegistersResponse,
       0x11: om.ReportSlaveIdResponse, 0x14: fm.ReadFileRecordResponse,
       0x15: fm.WriteFileRecordResponse, 0x16: rwm.MaskWriteRegisterResponse,
       0x17: rrm.ReadWriteMultipleRegistersResponse, 0x18: fm.ReadFifoQueueResponse,
       0x2B: mm.ReadDeviceInformationResponse}

# diagnostic sub-function -> class-name stem (V1.1b3 6.8)
DIAG = {0x00: 'ReturnQueryData', 0x01: 'RestartCommunicationsOption',
        0x02: 'ReturnDiagnosticRegister', 0x03: 'ChangeAsciiInputDelimiter',
        0x04: 'ForceListenOnlyMode', 0x0A: 'ClearCounters',
        0x0B: 'ReturnBusMessageCount', 0x0C: 'ReturnBusCommunicationErrorCount',
        0x0D: 'ReturnBusExceptionErrorCount', 0x0E: 'ReturnSlaveMessageCount',
        0x0F: 'ReturnSlaveNoResponseCount', 0x10: 'ReturnSlaveNAKCount',
        0x11: 'ReturnSlaveBusyCount', 0x12: 'ReturnSlaveBusCharacterOverrunCount',
        0x13: 'ReturnIopOverrunCount', 0x14: 'ClearOverrunCount',
        0x15: 'GetClearModbusPlus'}
# one response class of the library is spelled differently
_ALIASES = {'ReturnSlaveNoResponseCountResponse': 'ReturnSlaveNoReponseCountResponse'}


def diag_cls(kind, sub):
    stem = DIAG.get(sub)
    if stem is None:
        return dm.DiagnosticStatusRequest if kind == 'req' else dm.DiagnosticStatusResponse
    name = stem + ('Request' if kind == 'req' else 'Response')
    return getattr(dm, _ALIASES.get(name, name))


def cls_for(m):
    if m['kind'] == 'exc':
        return ppdu.ExceptionResponse
    if m['fc'] == 8:
        return diag_cls(m['kind'], m['sub'])
    return (REQ if m['kind'] == 'req' else RSP)[m['fc']]


def cls_name(m):
    return cls_for(m).__name__


def _ids(kw, m):
    for a, b in (('transaction', 'tid'), ('protocol', 'pid'), ('unit', 'unit')):
        if b in m:
            kw[a] = m[b]
    return kw


def to_obj(m):
    """Build the pymodbus object for a reference message via public ctors."""
    k, fc = m['kind'], m['fc']
    kw = _ids({}, m)
    if k == 'exc':
        return ppdu.ExceptionResponse(fc, m['code'], **kw)
    if k == 'req':
        if fc in (1, 2, 3, 4):
            return REQ[fc](m['address'], m['count'], **kw)
        if fc == 5:
            return REQ[fc](m['address'], m['value'] == 0xFF00, **kw)
        if fc == 6:
            return REQ[fc](m['address'], m['value'], **kw)
        if fc in (7, 0x0B, 0x0C, 0x11):
            return REQ[fc](**kw)
        if fc == 8:
            return _diag_obj(m, kw)
        if fc == 0x0F:
            return REQ[fc](m['address'], list(m['bits']), **kw)
        if fc == 0x10:
            return REQ[fc](m['address'], list(m['registers']), **kw)
        if fc == 0x14:
            recs = [fm.FileRecord(file_number=f, record_number=r, record_length=n)
                    for f, r, n in m['groups']]
            return REQ[fc](recs, **kw)
        if fc == 0x15:
            recs = [fm.FileRecord(file_number=f, record_number=r, record_data=bytes(d))
                    for f, r, d in m['groups']]
            return REQ[fc](recs, **kw)
        if fc == 0x16:
            return REQ[fc](m['address'], m['and_mask'], m['or_mask'], **kw)
        if fc == 0x17:
            return REQ[fc](read_address=m['read_address'], read_count=m['read_count'],
                           write_address=m['write_address'],
                           write_registers=list(m['write_registers']), **kw)
        if fc == 0x18:
            return REQ[fc](m['address'], **kw)
        if fc == 0x2B:
            return REQ[fc](m['read_code'], m['object_id'], **kw)
    else:
        if fc in (1, 2):
            return RSP[fc](list(m['bits']), **kw)
        if fc in (3, 4, 0x17):
            return RSP[fc](list(m['registers']), **kw)
        if fc == 5:
            return RSP[fc](m['address'], m['value'] == 0xFF00, **kw)
        if fc == 6:
            return RSP[fc](m['address'], m['value'], **kw)
        if fc == 7:
            return RSP[fc](m['status'], **kw)
        if fc == 8:
            return _diag_obj(m, kw)
        if fc == 0x0B:
            o = RSP[fc](m['count'], **kw)
            o.status = (m['status'] == 0x0000)
            return o
        if fc == 0x0C:
            return RSP[fc](status=(m['status'] == 0x0000), message_count=m['message_count'],
                           event_count=m['event_count'], events=list(m['events']), **kw)
        if fc in (0x0F, 0x10):
            return RSP[fc](m['address'], m['count'], **kw)
        if fc == 0x11:
            return RSP[fc](bytes(m['identifier']), m['run'], **kw)
        if fc == 0x14:
            recs = [fm.FileRecord(record_data=bytes(d)) for d in m['groups']]
            return RSP[fc](recs, **kw)
        if fc == 0x15:
            recs = [fm.FileRecord(file_number=f, record_number=r, record_data=bytes(d))
                    for f, r, d in m['groups']]
            return RSP[fc](recs, **kw)
        if fc == 0x16:
            return RSP[fc](m['address'], m['and_mask'], m['or_mask'], **kw)
        if fc == 0x18:
            return RSP[fc](list(m['values']), **kw)
        if fc == 0x2B:
            info = {}
            for i, d in m['objects']:
                if i in info:             # an id carried several times: the object keeps a list of values
                    info[i] = (info[i] if isinstance(info[i], list) else [info[i]]) + [bytes(d)]
                else:
                    info[i] = bytes(d)
            o = RSP[fc](m['read_code'], info, **kw)
            o.conformity = m['conformity']
            o.more_follows = m['more']
            o.next_object_id = m['next_id']
            return o
    raise ValueError(m)


def _diag_obj(m, kw):
    cls = diag_cls(m['kind'], m['sub'])
    data = list(m['data'])
    name = cls.__name__
    if name.startswith('ReturnQueryData'):
        return cls(data, **kw)
    if name.startswith('RestartCommunicationsOption'):
        return cls(data == [0xFF00], **kw)
    if name.startswith('ForceListenOnlyMode'):
        return cls(**kw)
    if name.startswith('GetClearModbusPlus') and m['kind'] == 'req':
        o = cls(**kw)
        o.message = data[0]
        return o
    if name.startswith('DiagnosticStatus'):
        o = cls(**kw)
        o.sub_function_code = m['sub']
        o.message = data
        return o
    if name.startswith('GetClearModbusPlus'):
        return cls(data if len(data) != 1 else data[0], **kw)
    return cls(data[0], **kw)


def _words(v):
    if v is None:
        return []
    if isinstance(v, bool):
        return [0xFF00 if v else 0]
    if isinstance(v, int):
        return [v]
    if isinstance(v, (bytes, bytearray)):
        return [int.from_bytes(v[i:i + 2], 'big') for i in range(0, len(v), 2)]
    return [int(x) for x in v]


def _b(v):
    return v.encode() if isinstance(v, str) else bytes(v)


def to_msg(o):
    """Normalise a pymodbus message object to a reference message."""
    name = type(o).__name__
    fc = o.function_code
    if isinstance(o, ppdu.ExceptionResponse):
        return {'kind': 'exc', 'fc': fc & 0x7F, 'code': o.exception_code}
    kind = 'req' if isinstance(o, ppdu.ModbusRequest) else 'rsp'
    m = {'kind': kind, 'fc': fc}
    if kind == 'req':
        if fc in (1, 2, 3, 4):
            m.update(address=o.address, count=o.count)
        elif fc == 5:
            m.update(address=o.address, value=0xFF00 if o.value else 0)
        elif fc == 6:
            m.update(address=o.address, value=o.value)
        elif fc == 8:
            m.update(sub=o.sub_function_code, data=_words(o.message))
        elif fc == 0x0F:
            # the quantity is the public `count` field when the class has one, else the number of values
            m.update(address=o.address, count=getattr(o, 'count', len(o.values)), byte_count=o.byte_count,
                     bits=[bool(b) for b in o.values])
        elif fc == 0x10:
            m.update(address=o.address, count=o.count, byte_count=o.byte_count,
                     registers=list(o.values))
        elif fc == 0x14:
            m['groups'] = [(r.file_number, r.record_number, r.record_length) for r in o.records]
        elif fc == 0x15:
            m['groups'] = [(r.file_number, r.record_number, _b(r.record_data)) for r in o.records]
        elif fc == 0x16:
            m.update(address=o.address, and_mask=o.and_mask, or_mask=o.or_mask)
        elif fc == 0x17:
            m.update(read_address=o.read_address, read_count=o.read_count,
                     write_address=o.write_address, write_count=o.write_count,
                     write_byte_count=o.write_byte_count, write_registers=list(o.write_registers))
        elif fc == 0x18:
            m.update(address=o.address)
        elif fc == 0x2B:
            m.update(read_code=o.read_code, object_id=o.object_id)
    else:
        if fc in (1, 2):
            m['bits'] = [bool(b) for b in o.bits]
        elif fc in (3, 4, 0x17):
            m['registers'] = list(o.registers)
        elif fc == 5:
            m.update(address=o.address, value=0xFF00 if o.value else 0)
        elif fc == 6:
            m.update(address=o.address, value=o.value)
        elif fc == 7:
            m['status'] = o.status
        elif fc == 8:
            m.update(sub=o.sub_function_code, data=_words(o.message))
        elif fc == 0x0B:
            m.update(status=0x0000 if o.status else 0xFFFF, count=o.count)
        elif fc == 0x0C:
            m.update(status=0x0000 if o.status else 0xFFFF, event_count=o.event_count,
                     message_count=o.message_count, events=list(_b(o.events) if isinstance(o.events, (bytes, str)) else o.events))
        elif fc in (0x0F, 0x10):
            m.update(address=o.address, count=o.count)
        elif fc == 0x11:
            m.update(identifier=_b(o.identifier), run=bool(o.status))
        elif fc == 0x14:
            m['groups'] = [_b(r.record_data) for r in o.records]
        elif fc == 0x15:
            m['groups'] = [(r.file_number, r.record_number, _b(r.record_data)) for r in o.records]
        elif fc == 0x16:
            m.update(address=o.address, and_mask=o.and_mask, or_mask=o.or_mask)
        elif fc == 0x18:
            m['values'] = list(o.values)
        elif fc == 0x2B:
            objs = []
            for i, d in o.information.items():
                if isinstance(d, list):
                    objs.extend((i, _b(x)) for x in d)
                else:
                    objs.append((i, _b(d)))
            m.update(read_code=o.read_code, conformity=o.conformity, more=o.more_follows,
                     next_id=o.next_object_id, objects=objs)
    return m


def pdu_bytes(o):
    """The PDU an object encodes to (function code included)."""
    return bytes([o.function_code]) + o.encode()
