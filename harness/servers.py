"""Uniform in-process driver for every pymodbus server front-end.

    srv  = Server(front, framing, context, broadcast_enable=..., ignore_missing_slaves=...)
    conn = srv.open(peer)            # a connection (stream) or a peer address (datagram)
    out  = conn.feed(chunk)          # -> list of byte strings written back (one per write call)
    conn.closed                      # the front-end closed / abandoned this connection
    srv.escaped                      # [(where, exception)] that left the serving code

Front-ends: sync-tcp, sync-serial, sync-udp, aio-tcp, aio-udp, tw-tcp, tw-udp.
The real handler / protocol classes run unmodified against fake sockets,
transports and a hand-stepped event loop; server objects are built by the real
constructors with only the socket-opening base constructor patched out.
"""
import asyncio
import socketserver
import types

from harness import repo  # noqa: F401
from harness import framers, aioloop

from pymodbus.datastore import ModbusServerContext

FRONTS = {
    'sync-tcp': ('stream', ('tcp', 'rtu', 'ascii', 'binary', 'tls')),
    'sync-serial': ('stream', ('rtu', 'ascii', 'binary')),
    'sync-udp': ('dgram', ('tcp',)),
    'aio-tcp': ('stream', ('tcp', 'rtu', 'ascii', 'binary', 'tls')),
    'aio-udp': ('dgram', ('tcp',)),
    'tw-tcp': ('stream', ('tcp', 'rtu', 'ascii', 'binary')),
    'tw-udp': ('dgram', ('tcp',)),
}


def server_context(slaves, single):
    """slaves: {unit: slave_context} or one slave context (single)"""
    return ModbusServerContext(slaves=slaves, single=single)



def _tw_start(helper, listen, context, fcls, **kw):
    """the Twisted server object as the library's own start helper builds it (reactor not run, nothing bound)"""
    from twisted.internet import reactor
    import pymodbus.server.asynchronous as pa
    got = []
    had = listen in vars(reactor)
    orig = vars(reactor).get(listen)
    setattr(reactor, listen, lambda port, obj, **k: got.append(obj))
    try:
        getattr(pa, helper)(context, identity=None, address=('127.0.0.1', 5020), defer_reactor_run=True, framer=fcls, **kw)
    finally:
        if had:
            setattr(reactor, listen, orig)
        else:
            delattr(reactor, listen)
    return got[0]


class _Sock(object):
    """fake stream socket / serial port for the synchronous handlers"""

    def __init__(self):
        self.script = []
        self.writes = []
        self.eof_seen = False
        self.handler = None
        self.timeout = None
        self.stop_sets_running = False

    def recv(self, n=1024):
        while self.script and callable(self.script[0]):
            self.script.pop(0)()                # something the application does between two reads
        if self.script:
            x = self.script.pop(0)
            if isinstance(x, BaseException):
                raise x
            if n is not None and 0 < n < len(x):
                self.script.insert(0, x[n:])       # a read takes at most what it asked for; the rest stays queued
                x = x[:n]
            return x
        self.eof_seen = True
        if self.stop_sets_running and self.handler is not None:
            self.handler.running = False
        return b''

    read = recv

    def send(self, data):
        self.writes.append(bytes(data))
        return len(data)

    write = send

    def sendto(self, data, addr):
        self.writes.append(bytes(data))
        self.addrs = getattr(self, 'addrs', []) + [addr]
        return len(data)

    def close(self):
        self.closed = True

    def settimeout(self, t):
        self.timeout = t


class _Conn(object):
    closed = False

    def __init__(self, srv, peer):
        self.srv, self.peer = srv, peer

    def _take(self, lst):
        out = list(lst)
        del lst[:]
        return out

    def burst(self, chunks):
        """segments that arrive back to back; front-ends without a queue between arrival and handling see them one by one"""
        return self.run_script(list(chunks))

    def run_script(self, items):
        """deliver a whole script (byte chunks and exceptions to be raised by the read call).
        Synchronous stream handlers run it inside ONE handle() invocation, as in production."""
        out = []
        for it in items:
            if callable(it):
                it()                        # something the application does between two reads (e.g. adds a unit)
            elif isinstance(it, BaseException):
                out.extend(self.feed(None, fault=it))
            else:
                out.extend(self.feed(it))
        return out


_NEIGHBOUR_REQUESTS = []


def neighbour_decoder():
    """another server in the same process whose application registered its own request classes on ITS decoder"""
    from pymodbus.factory import ServerDecoder
    if not _NEIGHBOUR_REQUESTS:
        from harness import framers as _fr
        for cls in _fr.standard_classes(ServerDecoder):
            ns = dict(execute=lambda self, context: self.doException(0x0B), __doc__='neighbour variant')
            _NEIGHBOUR_REQUESTS.append(type('Neighbour' + cls.__name__, (cls,), ns))
    d = ServerDecoder()
    for cls in _NEIGHBOUR_REQUESTS:
        d.register(cls)
    return d


class _FakeSslContext(object):
    """stands for the SSLContext a TLS server is given; never asked to wrap anything here"""
    verify_mode = None
    check_hostname = None


def _neighbour_context():
    """what another server in the same process serves: one unit (77) with tiny tables of its own"""
    from pymodbus.datastore import ModbusSequentialDataBlock, ModbusSlaveContext
    blk = lambda: ModbusSequentialDataBlock(0, [0x7E] * 4)   # noqa: E731
    return ModbusServerContext(slaves={77: ModbusSlaveContext(di=blk(), co=blk(), hr=blk(), ir=blk(), zero_mode=True)}, single=False)


def _neighbour_flags(flags):
    return dict((k, not v) for k, v in flags.items())


class Server(object):
    def __init__(self, front, framing, context, broadcast_enable=False, ignore_missing_slaves=False):
        self.front, self.framing, self.context = front, framing, context
        self.neighbour = neighbour_decoder()
        self.kind = FRONTS[front][0]
        self.escaped = []
        self.flags = dict(broadcast_enable=broadcast_enable, ignore_missing_slaves=ignore_missing_slaves)
        fcls = framers.FRAMERS[framing]
        getattr(self, '_init_' + front.replace('-', '_'))(fcls)
        neighbour_decoder()

    # ------------------------------------------------------------------ sync
    def _stub_sync(self, cls, fcls, **extra):
        import socketserver
        base = [c for c in cls.__mro__ if c.__module__ == 'socketserver'][0]
        orig = base.__init__
        base.__init__ = lambda s, *a, **k: None
        try:
            self.obj = cls(self.context, framer=fcls, **dict(self.flags, **extra))
            # another server of the same class in the process, serving something else with the opposite options
            self.neighbour_server = cls(_neighbour_context(), framer=fcls, **dict(_neighbour_flags(self.flags), **extra))
        finally:
            base.__init__ = orig

    def _init_sync_tcp(self, fcls):
        from pymodbus.server.sync import ModbusTcpServer, ModbusTlsServer
        if self.framing == 'tls':
            # the TLS server class (the record layer is not modelled: its context is a stand-in never asked to wrap)
            self._stub_sync(ModbusTlsServer, fcls, sslctx=_FakeSslContext())
        else:
            self._stub_sync(ModbusTcpServer, fcls)

    def _init_sync_udp(self, fcls):
        from pymodbus.server.sync import ModbusUdpServer
        self._stub_sync(ModbusUdpServer, fcls)

    def _init_sync_serial(self, fcls):
        import pymodbus.server.sync as S
        self.port = _Sock()
        self.port.stop_sets_running = True
        real = S.serial.Serial
        S.serial.Serial = lambda **kw: self.port
        try:
            self.obj = S.ModbusSerialServer(self.context, framer=fcls, port='fake', **self.flags)
            S.serial.Serial = lambda **kw: _Sock()
            self.neighbour_server = S.ModbusSerialServer(_neighbour_context(), framer=fcls, port='fake2', **_neighbour_flags(self.flags))
        finally:
            S.serial.Serial = real
        self.port.handler = self.obj.handler

    # ---------------------------------------------------------------- asyncio
    def _init_aio_tcp(self, fcls):
        from pymodbus.server.async_io import ModbusTcpServer, ModbusTlsServer
        self.loop = aioloop.Loop()
        cls, extra = (ModbusTlsServer, dict(sslctx=_FakeSslContext())) if self.framing == 'tls' else (ModbusTcpServer, {})
        with self.loop:
            self.obj = cls(self.context, framer=fcls, loop=self.loop, **dict(self.flags, **extra))
            self.obj.server_factory.close()
            self.factory = self.loop.factories[-1] if self.loop.factories else None
            self.neighbour_server = cls(_neighbour_context(), framer=fcls, loop=self.loop, **dict(_neighbour_flags(self.flags), **extra))
            self.neighbour_server.server_factory.close()

    def _init_aio_udp(self, fcls):
        from pymodbus.server.async_io import ModbusUdpServer
        self.loop = aioloop.Loop()
        with self.loop:
            self.obj = ModbusUdpServer(self.context, framer=fcls, loop=self.loop, **self.flags)
            self.obj.server_factory.close()
            self.factory = self.loop.factories[-1] if self.loop.factories else None
            self.neighbour_server = ModbusUdpServer(_neighbour_context(), framer=fcls, loop=self.loop, **_neighbour_flags(self.flags))
            self.neighbour_server.server_factory.close()
            self.proto = self.factory() if callable(self.factory) else self.obj.handler(self.obj)
            self.tr = _AioTransport(self, ('0.0.0.0', 502))
            self.proto.connection_made(self.tr)
            self.loop.run_until_idle()

    # ---------------------------------------------------------------- twisted
    def _init_tw_tcp(self, fcls):
        # built the way an application builds them: through the library's Start* helper, with the reactor's listen call intercepted
        self.obj = _tw_start('StartTcpServer', 'listenTCP', self.context, fcls, ignore_missing_slaves=self.flags['ignore_missing_slaves'])
        self.neighbour_server = _tw_start('StartTcpServer', 'listenTCP', _neighbour_context(), fcls, ignore_missing_slaves=not self.flags['ignore_missing_slaves'])

    def _init_tw_udp(self, fcls):
        self.obj = _tw_start('StartUdpServer', 'listenUDP', self.context, fcls, ignore_missing_slaves=self.flags['ignore_missing_slaves'])
        self.neighbour_server = _tw_start('StartUdpServer', 'listenUDP', _neighbour_context(), fcls, ignore_missing_slaves=not self.flags['ignore_missing_slaves'])
        self.tr = _TwDgram()
        self.obj.transport = self.tr

    def dgram_burst(self, items):
        """datagram front-ends: several datagrams [(peer, bytes)] arrive before the server gets to run
        (one event-loop turn on asyncio); -> [(destination address, bytes written)]"""
        out = []
        if self.front == 'aio-udp':
            n0 = len(self.tr.writes)
            with self.loop:
                for peer, data in items:
                    self.proto.datagram_received(bytes(data), peer)
                self.loop.run_until_idle()
            addrs = getattr(self.tr, 'addrs', [])
            out = list(zip(addrs[len(addrs) - (len(self.tr.writes) - n0):], self.tr.writes[n0:]))
            del self.tr.writes[:]
            self.tr.addrs = []
        elif self.front == 'tw-udp':
            for peer, data in items:
                n0 = len(self.tr.writes)
                try:
                    self.obj.datagramReceived(bytes(data), peer)
                except BaseException as e:   # noqa
                    self.reactor_contained = getattr(self, 'reactor_contained', []) + [e]
                out.extend(zip(self.tr.addrs[n0:], self.tr.writes[n0:]))
        else:
            from pymodbus.server.sync import ModbusDisconnectedRequestHandler as H
            for peer, data in items:
                sock = _Sock()
                try:
                    H((bytes(data), sock), peer, self.obj)
                except BaseException as e:   # noqa
                    self.escaped.append(('sync-udp.handle', e))
                out.extend(zip(getattr(sock, 'addrs', []), sock.writes))
        return out

    def shutdown(self):
        """cancel handler tasks and close the loop so that nothing is finalised at interpreter exit"""
        loop = getattr(self, 'loop', None)
        if loop is None or loop.is_closed():
            return
        for c in getattr(self, 'conns', []):
            c.p.running = False
        if getattr(self, 'proto', None) is not None:
            self.proto.running = False
        with loop:
            for t in list(asyncio.all_tasks(loop)):
                t.cancel()
            try:
                loop.run_until_idle()
            except Exception:   # noqa
                pass
        loop.close()

    # ------------------------------------------------------------------ open
    def open(self, peer=('10.0.0.1', 40001)):
        return getattr(self, '_open_' + self.front.replace('-', '_'))(peer)

    def _open_sync_tcp(self, peer):
        return _SyncStream(self, peer)

    def _open_sync_serial(self, peer):
        return _SyncSerial(self, peer)

    def _open_sync_udp(self, peer):
        return _SyncDgram(self, peer)

    def _open_aio_tcp(self, peer):
        return _AioStream(self, peer)

    def _open_aio_udp(self, peer):
        return _AioDgram(self, peer)

    def _open_tw_tcp(self, peer):
        return _TwStream(self, peer)

    def _open_tw_udp(self, peer):
        return _TwDgramConn(self, peer)


# -------------------------------------------------------------------- sync conns
class _SyncStream(_Conn):
    def __init__(self, srv, peer):
        _Conn.__init__(self, srv, peer)
        from pymodbus.server.sync import ModbusConnectedRequestHandler as H
        self.sock = _Sock()
        h = H.__new__(H)
        h.request, h.client_address, h.server = self.sock, peer, srv.obj
        h.setup()
        self.h = h
        self.sock.handler = h

    def feed(self, chunk, fault=None):
        if self.closed:
            return []
        self.sock.script = [fault if fault is not None else bytes(chunk)]
        self.sock.eof_seen = False
        self.h.running = True
        try:
            self.h.handle()
        except BaseException as e:   # noqa
            self.srv.escaped.append(('sync-tcp.handle', e))
            self.closed = True
        if not self.sock.eof_seen:
            self.closed = True       # the handler left its loop by itself: connection abandoned
        if self.closed:
            self._finish()
        return self._take(self.sock.writes)

    def burst(self, chunks):
        """segments that arrived back to back before the blocking handler got to read: its next read returns all of them
        (up to the size it asks for).  TLS records keep their boundaries: a read returns one record"""
        if self.srv.framing == 'tls':
            return self.run_script(list(chunks))
        return self.run_script([b''.join(bytes(c) for c in chunks)])

    def run_script(self, items):
        if self.closed:
            return []
        self.sock.script = [it if isinstance(it, BaseException) or callable(it) else bytes(it) for it in items]
        self.sock.eof_seen = False
        self.h.running = True
        try:
            self.h.handle()
        except BaseException as e:   # noqa
            self.srv.escaped.append(('sync-tcp.handle', e))
            self.closed = True
        if not self.sock.eof_seen:
            self.closed = True
        if self.closed:
            self._finish()
        return self._take(self.sock.writes)

    def _finish(self):
        try:
            self.h.finish()
        except Exception as e:   # noqa
            self.srv.escaped.append(('sync-tcp.finish', e))

    def close(self):
        if not self.closed:
            self.closed = True
            self._finish()


class _SyncSerial(_Conn):
    def __init__(self, srv, peer):
        _Conn.__init__(self, srv, peer)

    def feed(self, chunk, fault=None):
        port = self.srv.port
        port.script = [fault if fault is not None else bytes(chunk)]
        h = self.srv.obj.handler
        h.running = True
        try:
            h.handle()
        except BaseException as e:   # noqa
            self.srv.escaped.append(('sync-serial.handle', e))
        return self._take(port.writes)

    def burst(self, chunks):
        """bytes that piled up in the port's buffer before the handler's next read"""
        return self.run_script([b''.join(bytes(c) for c in chunks)])

    def run_script(self, items):
        port = self.srv.port
        port.script = [it if isinstance(it, BaseException) or callable(it) else bytes(it) for it in items]
        h = self.srv.obj.handler
        h.running = True
        try:
            h.handle()
        except BaseException as e:   # noqa
            self.srv.escaped.append(('sync-serial.handle', e))
        return self._take(port.writes)

    def close(self):
        pass


class _DgramSocket(_Sock):
    """the server's datagram socket: recvfrom(n) hands out ONE datagram, cut to n bytes as UDP does"""

    def __init__(self):
        _Sock.__init__(self)
        self.pending = []

    def recvfrom(self, n):
        data, addr = self.pending.pop(0)
        return data[:n], addr


class _SyncDgram(_Conn):
    def feed(self, chunk, fault=None):
        from pymodbus.server.sync import ModbusDisconnectedRequestHandler as H
        srv = self.srv.obj
        sock = _DgramSocket()
        sock.pending.append((bytes(chunk), self.peer))
        try:
            # the datagram goes through the server's own receive path (socketserver.UDPServer.get_request), then the
            # handler is run as socketserver does
            srv.socket = sock
            request, addr = srv.get_request()
            H(request, addr, srv)
        except BaseException as e:   # noqa
            self.srv.escaped.append(('sync-udp.handle', e))
        return self._take(sock.writes)

    def close(self):
        pass


# ----------------------------------------------------------------- asyncio conns
class _AioTransport(object):
    def __init__(self, srv, peer):
        self.srv, self.peer = srv, peer
        self.writes = []
        self.closing = False
        self.proto = None

    def get_extra_info(self, name, default=None):
        return {'peername': self.peer, 'sockname': ('0.0.0.0', 502)}.get(name, default)

    def write(self, data):
        self.writes.append(bytes(data))

    def sendto(self, data, addr=None):
        self.writes.append(bytes(data))
        self.addrs = getattr(self, 'addrs', []) + [addr]

    def is_closing(self):
        return self.closing

    def close(self):
        if not self.closing:
            self.closing = True
            if self.proto is not None:
                self.srv.loop.call_soon(self.proto.connection_lost, None)

    abort = close


class _AioStream(_Conn):
    def burst(self, chunks):
        """several segments arrive before the handler task gets to run (one event-loop turn)"""
        if self.closed:
            return []
        loop = self.srv.loop
        with loop:
            try:
                for c in chunks:
                    self.p.data_received(bytes(c))
                loop.run_until_idle()
            except BaseException as e:   # noqa
                self.srv.escaped.append(('aio-tcp.data_received', e))
        self._after()
        return self._take(self.tr.writes)

    def __init__(self, srv, peer):
        _Conn.__init__(self, srv, peer)
        self.tr = _AioTransport(srv, peer)
        srv.conns = getattr(srv, 'conns', []) + [self]
        with srv.loop:
            self.p = srv.factory() if callable(getattr(srv, 'factory', None)) else srv.obj.handler(srv.obj)
            self.tr.proto = self.p
            self.p.connection_made(self.tr)
            srv.loop.run_until_idle()

    def feed(self, chunk, fault=None):
        if self.closed:
            return []
        loop = self.srv.loop
        with loop:
            try:
                self.p.data_received(bytes(chunk))
                loop.run_until_idle()
            except BaseException as e:   # noqa
                self.srv.escaped.append(('aio-tcp.data_received', e))
        self._after()
        return self._take(self.tr.writes)

    def _after(self):
        loop = self.srv.loop
        t = self.p.handler_task
        if t is not None and t.done() and not t.cancelled() and t.exception() is not None:
            self.srv.escaped.append(('aio-tcp.handle-task', t.exception()))
        for ctx in loop.errors:
            self.srv.escaped.append(('aio.loop-exception-handler', ctx.get('exception') or RuntimeError(ctx.get('message'))))
        del loop.errors[:]
        if self.tr.closing or (t is not None and t.done()):
            self.closed = True

    def close(self):
        if not self.closed:
            with self.srv.loop:
                self.tr.close()
                self.srv.loop.run_until_idle()
            self._after()
            self.closed = True


class _AioDgram(_Conn):
    def feed(self, chunk, fault=None):
        srv = self.srv
        with srv.loop:
            try:
                srv.proto.datagram_received(bytes(chunk), self.peer)
                srv.loop.run_until_idle()
            except BaseException as e:   # noqa
                srv.escaped.append(('aio-udp.datagram_received', e))
        t = srv.proto.handler_task
        if t is not None and t.done():
            srv.dead = True
            if not t.cancelled() and t.exception() is not None:
                srv.escaped.append(('aio-udp.handle-task', t.exception()))
        for ctx in srv.loop.errors:
            srv.escaped.append(('aio.loop-exception-handler', ctx.get('exception') or RuntimeError(ctx.get('message'))))
        del srv.loop.errors[:]
        return self._take(srv.tr.writes)

    def close(self):
        pass


# ----------------------------------------------------------------- twisted conns
class _TwStreamTransport(object):
    def __init__(self, peer):
        self.peer = peer
        self.writes = []
        self.disconnecting = False

    def write(self, data):
        self.writes.append(bytes(data))

    def writeSequence(self, seq):
        for d in seq:
            self.write(d)

    def getHost(self):
        return types.SimpleNamespace(host='0.0.0.0', port=502, type='TCP')

    def getPeer(self):
        return types.SimpleNamespace(host=self.peer[0], port=self.peer[1], type='TCP')

    def loseConnection(self):
        self.disconnecting = True


class _TwStream(_Conn):
    def __init__(self, srv, peer):
        _Conn.__init__(self, srv, peer)
        self.tr = _TwStreamTransport(peer)
        self.p = srv.obj.buildProtocol(peer)
        self.p.makeConnection(self.tr)

    def feed(self, chunk, fault=None):
        if self.closed:
            return []
        try:
            self.p.dataReceived(bytes(chunk))
        except BaseException as e:   # noqa
            # the reactor logs an exception from dataReceived and drops the connection
            self.srv.reactor_contained = getattr(self.srv, 'reactor_contained', []) + [e]
            self.closed = True
            try:
                self.p.connectionLost(e)
            except Exception as e2:   # noqa
                self.srv.escaped.append(('tw-tcp.connectionLost', e2))
        if self.tr.disconnecting:
            self.closed = True
        return self._take(self.tr.writes)

    def close(self):
        if not self.closed:
            self.closed = True
            self.p.connectionLost(None)


class _TwDgram(object):
    def __init__(self):
        self.writes = []
        self.addrs = []

    def write(self, data, addr=None):
        self.writes.append(bytes(data))
        self.addrs.append(addr)


class _TwDgramConn(_Conn):
    def feed(self, chunk, fault=None):
        try:
            self.srv.obj.datagramReceived(bytes(chunk), self.peer)
        except BaseException as e:   # noqa
            # the reactor logs an exception from datagramReceived and goes on
            self.srv.reactor_contained = getattr(self.srv, 'reactor_contained', []) + [e]
        return self._take(self.srv.tr.writes)

    def close(self):
        pass


# ----------------------------------------------------------------- watchdog
class Stuck(BaseException):
    """the code under test did not give control back (busy loop) in an operation that takes milliseconds"""


_WATCH_DEPTH = [0]
WATCH_SECONDS = 4.0


def _watched(fn, ret):
    import functools
    import signal
    import threading

    @functools.wraps(fn)
    def wrapper(self, *a, **k):
        if getattr(self, '_dead', False):
            return ret() if callable(ret) else ret
        outer = _WATCH_DEPTH[0] == 0 and threading.current_thread() is threading.main_thread()
        if outer:
            def on_alarm(signum, frame):
                raise Stuck('no return within %.0f s' % WATCH_SECONDS)
            old = signal.signal(signal.SIGALRM, on_alarm)
            signal.setitimer(signal.ITIMER_REAL, WATCH_SECONDS)
        _WATCH_DEPTH[0] += 1
        try:
            return fn(self, *a, **k)
        except Stuck as e:
            srv = self if isinstance(self, Server) else getattr(self, 'srv', None)
            if srv is not None:
                srv.escaped.append(('%s.%s' % (type(self).__name__, fn.__name__), e))
            try:
                self._dead = True
                self.closed = True
            except Exception:   # noqa
                pass
            return ret() if callable(ret) else ret
        finally:
            _WATCH_DEPTH[0] -= 1
            if outer:
                signal.setitimer(signal.ITIMER_REAL, 0)
                signal.signal(signal.SIGALRM, old)
    return wrapper


for _cls in (_SyncStream, _SyncSerial, _SyncDgram, _AioStream, _AioDgram, _TwStream, _TwDgramConn, _Conn):
    for _name, _ret in (('feed', list), ('run_script', list), ('burst', list), ('close', None), ('__init__', None)):
        if _name in _cls.__dict__:
            setattr(_cls, _name, _watched(_cls.__dict__[_name], _ret))
Server.dgram_burst = _watched(Server.dgram_burst, list)
Server.shutdown = _watched(Server.shutdown, None)
Server.__init__ = _watched(Server.__init__, None)

