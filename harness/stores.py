"""Datastore layouts: build a real ModbusSlaveContext and the matching reference
Store from one description; dump the real store in protocol addresses."""
from harness import repo  # noqa: F401
from ref import datamodel

from pymodbus.datastore import ModbusSequentialDataBlock, ModbusSparseDataBlock, ModbusSlaveContext

TABLES = ('d', 'c', 'i', 'h')
KW = {'d': 'di', 'c': 'co', 'i': 'ir', 'h': 'hr'}
BITS = ('d', 'c')


class Layout(object):
    """shape: ('seq', start, size) | ('sparse', (addresses...)) in DATASTORE addresses;
    zero_mode; shared: coils/discretes one block, holding/input one block."""

    def __init__(self, shape, zero_mode, shared, shapes=None):
        self.shape, self.zero_mode, self.shared = shape, zero_mode, shared
        self.shapes = shapes          # optional {table: shape}: tables of different extents
        self.off = 0 if zero_mode else 1

    @property
    def name(self):
        s = self.shape
        core = 'seq%d+%d' % (s[1], s[2]) if s[0] == 'seq' else 'sparse' + '.'.join(map(str, s[1]))
        if self.shapes:
            core = 'mixed-' + '-'.join('%s%d+%d' % (t, self.shapes[t][1], self.shapes[t][2]) for t in TABLES)
        return '%s/%s/%s' % (core, 'zero' if self.zero_mode else 'one-based', 'shared' if self.shared else 'separate')

    @property
    def cls(self):
        return '%s/%s/%s' % ('mixed' if self.shapes else self.shape[0], 'zero' if self.zero_mode else 'one-based',
                             'shared' if self.shared else 'separate')

    def block_addresses(self, t=None):
        s = self.shapes[t] if (self.shapes and t) else self.shape
        return list(range(s[1], s[1] + s[2])) if s[0] == 'seq' else list(s[1])

    def initial_state(self):
        """state = tuple over TABLES of tuple((protocol_address, value), ...)"""
        out = []
        for t in TABLES:
            cells = []
            for k, b in enumerate(self.block_addresses(t)):
                p = b - self.off
                if t in BITS:
                    v = bool((k + (1 if t == 'c' else 0)) % 2)
                else:
                    v = (0x1100 if t == 'h' else 0x2200) + k
                cells.append((p, v))
            out.append(tuple(cells))
        st = dict(zip(TABLES, out))
        if self.shared:
            st['c'] = st['d']
            st['i'] = st['h']
        return tuple(st[t] for t in TABLES)

    def build(self, state):
        """real context holding exactly `state`"""
        blocks = {}
        st = dict(zip(TABLES, state))
        for t in TABLES:
            if self.shared and t == 'c':
                blocks['c'] = blocks['d']
                continue
            if self.shared and t == 'h' and 'i' in blocks:
                blocks['h'] = blocks['i']
                continue
            cells = [(p + self.off, v) for p, v in st[t]]
            if (self.shapes[t] if self.shapes else self.shape)[0] == 'seq':
                blocks[t] = ModbusSequentialDataBlock(cells[0][0], [v for _, v in cells])
            else:
                blocks[t] = ModbusSparseDataBlock(dict(cells))
        # ModbusSlaveContext.__init__ evaluates its four 65536-cell default blocks on every call even when all
        # four tables are given; the real constructor is used, with only that default factory made cheap while
        # it runs (the defaults themselves are exercised by the real-constructor sub-checks of C04 and C10)
        orig = ModbusSequentialDataBlock.__dict__['create']
        ModbusSequentialDataBlock.create = classmethod(lambda cls: _CHEAP_DEFAULT)
        try:
            ctx = ModbusSlaveContext(zero_mode=self.zero_mode, **dict((KW[t], blocks[t]) for t in TABLES))
        finally:
            ModbusSequentialDataBlock.create = orig
        return ctx

    def ref(self, state):
        st = dict(zip(TABLES, state))
        tabs = {}
        for t in TABLES:
            tabs[t] = dict(st[t])
        if self.shared:
            tabs['c'] = tabs['d']
            tabs['h'] = tabs['i']
        return datamodel.Store(tabs)

    def dump(self, ctx):
        out = []
        for t in TABLES:
            blk = ctx.store[t]
            items = sorted((a - self.off, (bool(v) if t in BITS else v)) for a, v in blk)
            out.append(tuple(items))
        return tuple(out)

    def dump_ref(self, store):
        return tuple(tuple(sorted((a, (bool(v) if t in BITS else v)) for a, v in store.t[t].items())) for t in TABLES)


_CHEAP_DEFAULT = ModbusSequentialDataBlock(0, [0])


def layouts():
    out = []
    for shape in (('seq', 0, 6), ('seq', 1, 6), ('seq', 3, 4), ('sparse', (1, 2, 3, 5, 6))):
        for z in (False, True):
            for sh in (False, True):
                out.append(Layout(shape, z, sh))
    # tables of different extents (a range valid in one table is invalid in another)
    mixed = {'d': ('seq', 0, 6), 'c': ('seq', 0, 3), 'i': ('seq', 1, 5), 'h': ('seq', 2, 2)}
    for z in (False, True):
        out.append(Layout(('seq', 0, 6), z, False, shapes=mixed))
    return out


def diff_tables(a, b):
    for t, x, y in zip(TABLES, a, b):
        if x != y:
            dx, dy = dict(x), dict(y)
            if set(dx) != set(dy):
                return t, 'extent'
            cell = sorted(k for k in dx if dx[k] != dy[k])[0]
            return t, 'cell'
    return None


def wide_layouts():
    """tables wide enough for every quantity that crosses a byte boundary several times"""
    return [Layout(('seq', 0, 40), True, False), Layout(('seq', 1, 40), False, False)]
