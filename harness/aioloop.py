"""A hand-stepped asyncio event loop: no selector, virtual time; the explorer
decides when ready callbacks run (run_until_idle), so task wake-ups are
explorer-visible steps."""
import asyncio
from asyncio import events


class _NoSelector(object):
    def select(self, timeout=None):
        return []

    def close(self):
        pass


class Loop(asyncio.BaseEventLoop):
    def __init__(self):
        super().__init__()
        self._vt = 0.0
        self._selector = _NoSelector()
        self.errors = []
        self.factories = []
        self.set_exception_handler(lambda loop, ctx: self.errors.append(ctx))

    def time(self):
        return self._vt

    def _process_events(self, event_list):
        pass

    def _write_to_self(self):
        pass

    # the real server constructors ask for listening endpoints; nothing is opened here
    def create_server(self, *a, **k):
        # what the server hands over for building a protocol object per connection is what connections are built with
        self.factories.append(a[0] if a else k.get('protocol_factory'))

        async def _none():
            return None
        return _none()

    create_datagram_endpoint = create_server

    def __enter__(self):
        self._prev = events._get_running_loop()
        events._set_running_loop(self)
        return self

    def __exit__(self, *a):
        events._set_running_loop(self._prev)

    def run_until_idle(self, max_steps=10000):
        """run ready callbacks until nothing is ready (timers are not advanced)"""
        n = 0
        while self._ready:
            self._run_once()
            n += 1
            if n > max_steps:
                raise RuntimeError('event loop does not go idle')
        return n

    def advance(self, dt):
        self._vt += dt
        self._run_once()
        return self.run_until_idle()
