"""Shared driver for the server-side checks (C09, C10, C12, C17): builds the real
server context and the matching reference server from one configuration, encodes
request tokens, parses what a front-end wrote back."""
from harness import repo  # noqa: F401
from harness import servers, stores, reset
from ref import adu, pdu, routing, datamodel

LAY = stores.Layout(('seq', 0, 8), True, False)


class Cfg(object):
    """single: one context for every unit id; units: hosted unit ids (multi mode)"""

    def __init__(self, single=True, units=(1,), broadcast=False, ignore=False):
        self.single, self.units, self.broadcast, self.ignore = single, tuple(units), broadcast, ignore

    @property
    def name(self):
        return '%s/bc=%d/ign=%d' % ('single' if self.single else 'multi' + '.'.join(map(str, self.units)),
                                    self.broadcast, self.ignore)

    @property
    def mode(self):
        return 'single' if self.single else 'multi'

    @property
    def flags(self):
        return 'bc=%d,ign=%d' % (self.broadcast, self.ignore)


def unit_state(u):
    st = LAY.initial_state()
    out = []
    for t, cells in zip(stores.TABLES, st):
        if t in stores.BITS:
            out.append(cells)
        else:
            out.append(tuple((a, (v + 0x0100 * (u % 200)) & 0xFFFF) for a, v in cells))
    return tuple(out)


def build(cfg):
    """-> (real ModbusServerContext, reference server, {key: real slave context})"""
    reset.control_block()
    if cfg.single:
        st = unit_state(0)
        real = {0: LAY.build(st)}
        ctx = servers.server_context(real[0], True)
        ref = routing.RefServer(LAY.ref(st), True, cfg.broadcast, cfg.ignore)
    else:
        real, refs = {}, {}
        for u in cfg.units:
            st = unit_state(u)
            real[u] = LAY.build(st)
            refs[u] = LAY.ref(st)
        ctx = servers.server_context(dict(real), False)
        ref = routing.RefServer(refs, False, cfg.broadcast, cfg.ignore)
    return ctx, ref, real


def dumps(real):
    return dict((u, LAY.dump(c)) for u, c in real.items())


def ref_dumps(ref):
    return dict((u, LAY.dump_ref(s)) for u, s in ref.stores.items())


def frame(framing, unit, tid, m):
    pid = 0
    if isinstance(m, dict) and '_pid' in m:
        m = dict(m)
        pid = m.pop('_pid')            # an MBAP protocol identifier other than 0 (TCP framing only)
    return adu.build(framing, unit, pdu.encode(m) if isinstance(m, dict) else bytes(m), tid=tid, pid=pid)


def parse_out(framing, writes):
    """each write of a front-end must be exactly one well-formed frame"""
    out = []
    for w in writes:
        p = adu.parse_one(framing, w)
        out.append(p if p else {'garbage': bytes(w)})
    return out


def match(framing, got, unit, tid, want):
    """does the parsed frame `got` answer (unit, tid) with reference message `want`?
    returns None if it does, else the name of what differs"""
    if 'garbage' in got:
        return 'not-a-frame'
    if want == 'shape-only':
        return None
    if got['unit'] != unit and framing != 'tls':
        return 'wrong-echo:unit'
    if framing == 'tcp' and got['tid'] != tid:
        return 'wrong-echo:tid'
    if got['pdu'] != pdu.encode(want):
        if got['pdu'][:1] != pdu.encode(want)[:1]:
            return 'wrong-echo:function'
        return 'wrong-pdu'
    return None


# request tokens of DESIGN C09 -------------------------------------------------
def token(tok, pos, cfg):
    """-> (unit, msg-or-raw-pdu)"""
    host = 1 if not cfg.single else 1
    absent = 9
    if tok == 'R':
        return host, dict(kind='req', fc=3, address=1, count=2)
    if tok == 'W':
        return host, dict(kind='req', fc=6, address=2, value=0x0A00 + pos)
    if tok == 'E2':
        return host, dict(kind='req', fc=3, address=500, count=1)
    if tok == 'E3':
        return host, dict(kind='req', fc=3, address=0, count=0)
    if tok == 'E1':
        return host, b'\x41\x00'
    if tok == 'D':
        return host, dict(kind='req', fc=8, sub=0, data=[0xA537])
    if tok == 'X':
        return host, dict(kind='req', fc=7)
    if tok == 'L':
        return host, dict(kind='req', fc=8, sub=4, data=[0])
    if tok == 'U0':
        return 0, dict(kind='req', fc=6, address=3, value=0x0B00 + pos)
    if tok == 'UA':
        return absent, dict(kind='req', fc=6, address=4, value=0x0C00 + pos)
    if tok == 'C':
        return host, dict(kind='req', fc=15, address=1, count=3, byte_count=1, bits=[True, False, True])
    if tok == 'I':
        return host, dict(kind='req', fc=0x2B, read_code=1, object_id=0)
    if tok == 'WMAX':
        # the longest request there is (123 registers: an ADU of 260 bytes on TCP/UDP); outside this store's tables, so
        # the answer is exception 02 -- but it has to be an answer
        return host, dict(kind='req', fc=16, address=1, count=123, byte_count=246, registers=[0x0100 + j for j in range(123)])
    if tok == 'M1':
        return host, dict(kind='req', fc=16, address=5, count=1, byte_count=2, registers=[0x0D00 + pos])
    if tok == 'M3':
        return host, dict(kind='req', fc=16, address=1, count=3, byte_count=6, registers=[0x0E00 + pos, 0x0E10 + pos, 0x0E20 + pos])
    if tok == 'S':
        return host, b'\x03\x00'          # a frame whose PDU is shorter than its function's layout: handling it raises
    if tok == 'RP':
        return host, dict(kind='req', fc=3, address=1, count=1, _pid=0x1234)     # protocol identifier 0x1234 in the MBAP header
    if tok == 'I0':
        return host, dict(kind='req', fc=0x2B, read_code=0, object_id=0)     # a read code no category is defined for
    raise ValueError(tok)


def as_msg(m):
    if isinstance(m, dict):
        return m
    return dict(kind='req', fc=m[0])      # raw PDU of an unsupported function
