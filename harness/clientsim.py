"""One controlled execution of the real synchronous client against a scripted peer.

run(env, spec) performs `spec.history` earlier transactions, the main transaction and
one healthy follow-up transaction on ONE real client object.  Environment decisions
(mc.choice.Env) are taken at two levels only: peer behaviour per request frame written
and outcome of each logical read (plus send ok / OSError).  Everything the client wrote,
everything the line delivered (with the call during which it was consumed) and what
each call returned is recorded for the oracles of C08 / C13.
"""
from harness import repo  # noqa: F401
from harness import clients, bind, stores
from ref import adu, pdu, datamodel

from pymodbus.exceptions import ModbusIOException
from pymodbus.pdu import ModbusRequest

PEER_MENU = ['own', 'own-exception', 'nothing', 'garbage', 'other-unit', 'stale+own', 'stale', 'other-function', 'late', 'reset', 'bad-length', 'bad-body']
READ_MENU = ['full', 'short0', 'short1', 'short-1', 'oserror', 'eof']
SEND_MENU = ['ok', 'oserror']
UNIT = 0x11
FRAMING_HAS_TID = lambda kind: kind in ('tcp', 'udp')   # noqa: E731
LAY = stores.Layout(('seq', 0, 130), True, False)


class Spec(object):
    def __init__(self, kind, request, retries=3, retry_on_empty=False, retry_on_invalid=False, backoff=0.3,
                 history=(), tid0=0, peer_menu=PEER_MENU, read_menu=READ_MENU, send_menu=SEND_MENU,
                 split='whole', timeout=3, arrival=None):
        self.kind, self.request = kind, request
        self.arrival = arrival       # (delay, k, gap): during the main call a reply arrives after `delay`; if k, its first k bytes then, the rest `gap` later
        self.retries, self.roe, self.roi, self.backoff = retries, retry_on_empty, retry_on_invalid, backoff
        self.history, self.tid0 = tuple(history), tid0
        self.peer_menu, self.read_menu, self.send_menu = list(peer_menu), list(read_menu), list(send_menu)
        self.split, self.timeout = split, timeout

    @property
    def framing(self):
        return clients.FRAMING[self.kind]


def req_of(name, i=0):
    if name == 'read-registers':
        return dict(kind='req', fc=3, address=2 + i, count=2)
    if name == 'write-single':
        return dict(kind='req', fc=6, address=5, value=0x0A00 + i)
    if name == 'read-coils':
        return dict(kind='req', fc=1, address=1, count=11)
    if name == 'diagnostic':
        return dict(kind='req', fc=8, sub=0, data=[0xA530 + i])
    if name == 'write-registers':
        return dict(kind='req', fc=16, address=8, count=2, byte_count=4, registers=[0x0B00 + i, 0x0C00 + i])
    if name == 'mask-write':
        return dict(kind='req', fc=22, address=9, and_mask=0x00FF, or_mask=0x1200)
    if name == 'read-max':
        return dict(kind='req', fc=3, address=1 + i, count=125)          # the longest reply there is (ADU of 259/260 bytes)
    if name == 'read-discrete':
        return dict(kind='req', fc=2, address=2, count=9)
    if name == 'read-input':
        return dict(kind='req', fc=4, address=1 + i, count=3)
    if name == 'write-coil':
        return dict(kind='req', fc=5, address=3, value=0xFF00)
    if name == 'write-coils':
        return dict(kind='req', fc=15, address=2, count=10, byte_count=2, bits=[True, False, True, True, False, False, True, False, True, True])
    if name == 'read-write-registers':
        return dict(kind='req', fc=23, read_address=2, read_count=5, write_address=8, write_count=2, write_byte_count=4,
                    write_registers=[0x0D00 + i, 0x0E00 + i])
    if name == 'diagnostic-0E':
        return dict(kind='req', fc=8, sub=0x0E, data=[0])               # Return Slave Message Count
    if name == 'device-information':
        return dict(kind='req', fc=0x2B, read_code=1, object_id=0)
    if name == 'custom-unregistered':
        # an application-defined function (0x41) sent through execute(); the application registered no response class
        # for it and the device does not know it: the answer is exception 01
        return dict(kind='req', fc=0x41, custom=True, body=bytes([0x00, 0x01 + (i & 0x0F)]))
    raise ValueError(name)


class CustomRequest(ModbusRequest):
    function_code = 0x41
    _rtu_frame_size = 6

    def __init__(self, body=b'\x00\x01', **kwargs):
        ModbusRequest.__init__(self, **kwargs)
        self.body = bytes(body)

    def encode(self):
        return self.body

    def decode(self, data):
        self.body = bytes(data)


class Sim(object):
    def __init__(self, env, spec):
        self.env, self.spec = env, spec
        self.clock = clients.VClock()
        self.line = clients.Line(self.clock, self.peer)
        self.store = LAY.ref(LAY.initial_state())
        self.call = -1                     # index of the client call in progress
        self.mode = 'healthy'              # 'explore' while the main transaction runs
        self.delivered = []                # frames pushed: dict(meta..., bytes, call_pushed)
        self.frames_written = {}           # call -> [bytes]
        self.last_reply = None             # (tid, unit, pdu) of the previous transaction's own reply (the "stale" frame)
        self.pending_late = []
        self.trace = []

    # ------------------------------------------------------------------ peer
    def own_reply(self, tid, unit, m, exception=False):
        if m.get('custom'):
            return bytes([m['fc'] | 0x80, 1])
        if exception:
            return bytes([m['fc'] | 0x80, 2])
        if m['fc'] in datamodel.TABLE_OF:
            r = datamodel.execute(self.store, m)
        elif m['fc'] == 0x2B:
            r = dict(kind='rsp', fc=0x2B, read_code=m['read_code'], conformity=0x01, more=0, next_id=0,
                     objects=[(0, b'Vendor'), (1, b'PC-7'), (2, b'V2.11')])
        elif m['sub'] == 0x0E:
            r = dict(kind='rsp', fc=8, sub=0x0E, data=[0x0107])
        else:
            r = dict(kind='rsp', fc=8, sub=m['sub'], data=list(m['data']))
        return pdu.encode(r)

    def push(self, data, meta, delay=0.0):
        ent = dict(meta, bytes=bytes(data), call_pushed=self.call, avail_at=self.clock.t + delay)
        self.delivered.append(ent)
        sp = self.spec.split
        if self.spec.arrival and self.mode == 'explore' and not delay:
            d, k, gap = self.spec.arrival
            k = min(k, len(data) - 1)
            ent['avail_at'] = self.clock.t + d + (gap if k else 0)
            if k:
                self.line.push(data[:k], d)
                self.line.push(data[k:], d + gap)
            else:
                self.line.push(data, d)
        elif sp == 'whole' or len(data) < 2:
            self.line.push(data, delay)
        elif sp == 'bytes':
            for i in range(len(data)):
                self.line.push(data[i:i + 1], delay)
        else:
            k = min(int(sp), len(data) - 1)
            self.line.push(data[:k], delay)
            self.line.push(data[k:], delay)

    def peer(self, line, data):
        """called for every request frame the client writes"""
        self.frames_written.setdefault(self.call, []).append(bytes(data))
        fr = self.spec.framing
        p = adu.parse_one(fr, data)
        if p is None:
            self.trace.append(('peer', 'unparseable-request'))
            return
        try:
            m = pdu.decode('req', p['pdu'])
        except Exception:   # noqa
            if p['pdu'][:1] != b'\x41':
                return
            m = dict(kind='req', fc=0x41, custom=True)       # a function this device does not implement
        tid = p['tid'] if p['tid'] is not None else 0
        unit = p['unit']
        if self.mode == 'explore':
            b = self.spec.peer_menu[self.env.choose(len(self.spec.peer_menu), 'peer')]
        else:
            b = 'own'
        self.trace.append(('peer', b))
        F = lambda u, body, t=tid: adu.build(fr, u, body, tid=t)   # noqa: E731
        own = lambda exc=False: F(unit, self.own_reply(tid, unit, m, exc))   # noqa: E731
        meta = dict(tid=tid, unit=unit, fc=m['fc'])
        stale_src = self.last_reply or ((tid - 1) & 0xFFFF, unit, bytes([3, 4, 0xDE, 0xAD, 0xBE, 0xEF]))
        stale = F(stale_src[1], stale_src[2], stale_src[0])
        stale_meta = dict(tid=stale_src[0], unit=stale_src[1], fc=stale_src[2][0], what='stale')
        if b == 'own':
            body = self.own_reply(tid, unit, m)
            self.push(F(unit, body), dict(meta, what='own', pdu=body))
            self.last_reply = (tid, unit, body)
        elif b == 'own-exception':
            body = self.own_reply(tid, unit, m, True)
            self.push(F(unit, body), dict(meta, what='own', pdu=body))
        elif b == 'nothing':
            pass
        elif b == 'garbage':
            g = {'tcp': bytes.fromhex('5555aaaa0102030405'), 'rtu': bytes.fromhex('55aa55aa55aa55aa'),
                 'ascii': b'zz:ZZ\r\n', 'binary': b'}}{zz'}[fr]
            self.push(g, dict(what='garbage', tid=None, unit=None, fc=None))
        elif b == 'bad-length':
            # a frame whose own length information is wrong: MBAP length 1 with more bytes behind it / one stray byte on a serial line
            g = {'tcp': adu.build('tcp', unit, bytes([m['fc']]), tid=tid)[:4] + b'\x00\x01' + bytes([unit, m['fc'], 0xDE, 0xAD, 0xBE, 0xEF]),
                 'rtu': bytes([unit]), 'ascii': b':', 'binary': b'{'}[fr]
            self.push(g, dict(what='garbage', tid=None, unit=None, fc=None))
        elif b == 'bad-body':
            # framing and checksum are right, the PDU inside contradicts itself (byte count 3 with 3 data bytes for
            # registers, or a count that promises more than is there)
            body = bytes([m['fc'], 3, 0x12, 0x34, 0x56]) if m['fc'] in (3, 4) else bytes([m['fc'], 4, 0x12, 0x34])
            self.push(F(unit, body), dict(meta, what='garbage', pdu=body))
        elif b == 'other-unit':
            body = self.own_reply(tid, unit, m)
            self.push(F((unit + 1) & 0xFF or 1, body), dict(meta, unit=(unit + 1) & 0xFF or 1, what='other-unit', pdu=body))
        elif b in ('unit-0', 'unit-255'):
            u2 = 0 if b == 'unit-0' else 0xFF
            body = bytes([m['fc'], 4, 0xFA, 0xCE, 0xB0, 0x0C]) if m['fc'] in (3, 4) else self.own_reply(tid, unit, m)
            self.push(F(u2, body), dict(meta, unit=u2, what='other-unit', pdu=body))
        elif b == 'stale':
            self.push(stale, dict(stale_meta, pdu=stale_src[2]))
        elif b == 'stale+own':
            self.push(stale, dict(stale_meta, pdu=stale_src[2]))
            body = self.own_reply(tid, unit, m)
            self.push(F(unit, body), dict(meta, what='own', pdu=body))
            self.last_reply = (tid, unit, body)
        elif b == 'other-function':
            body = bytes([4, 2, 0x12, 0x34]) if m['fc'] != 4 else bytes([3, 2, 0x12, 0x34])
            self.push(F(unit, body), dict(meta, fc=body[0], what='other-function', pdu=body))
        elif b == 'late':
            body = self.own_reply(tid, unit, m)
            self.push(F(unit, body), dict(meta, what='late', pdu=body), delay=self.spec.timeout + 0.5)
            self.last_reply = (tid, unit, body)
        elif b == 'reset':
            if not self.spec.kind.startswith('serial') and self.spec.kind != 'udp':
                self.line.dead.add(self.line.conn)      # the peer closes the connection instead of answering

    # ------------------------------------------------------------------ reads / sends
    def decide_read(self, size):
        if self.mode != 'explore':
            return 'full'
        d = self.spec.read_menu[self.env.choose(len(self.spec.read_menu), 'read')]
        self.trace.append(('read', size, d))
        n = size if size else 8
        if d == 'short0':
            return ('short', 0)
        if d == 'short1':
            return ('short', 1)
        if d == 'short-1':
            return ('short', max(0, n - 1))
        return d

    # ------------------------------------------------------------------ run
    def run(self):
        spec = self.spec
        out = []
        with clients.Patched(self.clock, self.line):
            kw = dict(retries=spec.retries, retry_on_empty=spec.roe, retry_on_invalid=spec.roi, backoff=spec.backoff, timeout=spec.timeout)
            c = clients.make_client(spec.kind, self.line, **kw)
            c.transaction.tid = spec.tid0
            clients.hook_logical_reads(c, self.line, self.decide_read)
            orig_written = self.line.written

            def written(data):
                if self.mode == 'explore' and len(spec.send_menu) > 1:
                    if spec.send_menu[self.env.choose(len(spec.send_menu), 'send')] == 'oserror':
                        self.trace.append(('send', 'oserror'))
                        self.line.ops += 1
                        raise OSError('send failed (injected)')
                return orig_written(data)
            self.line.written = written
            plan = [('history', h) for h in spec.history] + [('main', spec.request), ('follow-up', 'read-registers')]
            for i, (role, name) in enumerate(plan):
                self.call = i
                # history transactions: 'ok' = healthy, 'late' = its reply arrives after the timeout
                self.mode = 'explore' if role == 'main' else 'healthy'
                hist_late = hist_silent = hist_reuse = False
                if role == 'history' and isinstance(name, tuple):
                    name, hist_late, hist_silent, hist_reuse = name[0], name[1] == 'late', name[1] == 'silent', name[1] == 'reuse'
                if hist_reuse:
                    name = spec.request          # the application's request object, executed now and again as the main call
                m = req_of(name, i)
                req = bind.to_obj(dict(m, unit=UNIT)) if not m.get('custom') else CustomRequest(m['body'], unit=UNIT)
                reused = None
                if hist_reuse:
                    self.reuse = (m, req)
                elif role == 'main' and getattr(self, 'reuse', None) is not None:
                    # the same object again, after the application changed its address field (where it has one)
                    m, req = self.reuse
                    m = dict(m)
                    if 'address' in m and hasattr(req, 'address'):
                        m['address'] += 1
                        req.address = m['address']
                    reused = req
                if hist_late:
                    saved = self.spec.peer_menu, self.mode
                    self.mode = 'forced-late'
                if hist_silent:
                    self.mode = 'forced-silent'       # this earlier request is never answered
                t0, ops0 = self.clock.t, self.line.ops
                rec = dict(role=role, request=m, tid_before=c.transaction.tid)
                if role == 'follow-up':
                    # what a conformant server answers now (the store as the earlier transactions left it)
                    rec['expected_pdu'] = pdu.encode(datamodel.execute(self.store.copy(), m))
                try:
                    if self.mode == 'forced-silent':
                        orig_peer = self.line.peer

                        def silent_peer(line, data, s=self):
                            s.frames_written.setdefault(s.call, []).append(bytes(data))
                        self.line.peer = silent_peer
                    if self.mode == 'forced-late':
                        orig_peer = self.line.peer

                        def late_peer(line, data, s=self):
                            p = adu.parse_one(spec.framing, data)
                            mm = pdu.decode('req', p['pdu'])
                            tid = p['tid'] if p['tid'] is not None else 0
                            body = s.own_reply(tid, p['unit'], mm)
                            s.frames_written.setdefault(s.call, []).append(bytes(data))
                            s.push(adu.build(spec.framing, p['unit'], body, tid=tid),
                                   dict(tid=tid, unit=p['unit'], fc=mm['fc'], what='late', pdu=body), delay=spec.timeout + 0.5)
                            s.last_reply = (tid, p['unit'], body)
                        self.line.peer = late_peer
                    r = c.execute(req) if (hist_reuse or reused is not None) else call(c, m, req)
                    rec['result'] = r
                    rec['raised'] = None
                except BaseException as e:   # noqa
                    rec['result'] = None
                    rec['raised'] = e
                finally:
                    if self.mode in ('forced-late', 'forced-silent'):
                        self.line.peer = orig_peer
                rec['tid'] = c.transaction.tid if FRAMING_HAS_TID(spec.kind) else getattr(req, 'transaction_id', None)
                rec['elapsed'] = self.clock.t - t0
                rec['t_start'], rec['t_end'] = t0, self.clock.t
                rec['ops'] = self.line.ops - ops0
                # the pauses the client took between attempts (sleeps of at least the configured back-off)
                rec['pauses'] = sum(d for t, d in self.clock.sleeps if t >= t0 and d >= spec.backoff - 1e-9)
                rec['writes'] = list(self.frames_written.get(i, []))
                out.append(rec)
                if role == 'main':
                    # the line is healthy again afterwards; a reply that was held back arrives before the next call
                    self.line.read_fault = None
                    self.clock.t += spec.timeout + 1.0
        return out


def call(c, m, req):
    """issue the request the way applications do: through the client's convenience methods where one exists
    (they build the request object and call execute), else through execute(request)"""
    fc = m['fc']
    if fc == 3:
        return c.read_holding_registers(m['address'], m['count'], unit=UNIT)
    if fc == 1:
        return c.read_coils(m['address'], m['count'], unit=UNIT)
    if fc == 6:
        return c.write_register(m['address'], m['value'], unit=UNIT)
    if fc == 16:
        return c.write_registers(m['address'], list(m['registers']), unit=UNIT)
    if fc == 22:
        return c.mask_write_register(m['address'], m['and_mask'], m['or_mask'], unit=UNIT)
    if fc == 2:
        return c.read_discrete_inputs(m['address'], m['count'], unit=UNIT)
    if fc == 4:
        return c.read_input_registers(m['address'], m['count'], unit=UNIT)
    if fc == 5:
        return c.write_coil(m['address'], bool(m['value']), unit=UNIT)
    if fc == 15:
        return c.write_coils(m['address'], list(m['bits']), unit=UNIT)
    if fc == 23:
        return c.readwrite_registers(read_address=m['read_address'], read_count=m['read_count'], write_address=m['write_address'],
                                     write_registers=list(m['write_registers']), unit=UNIT)
    return c.execute(req)


def describe(r):
    """comparable description of what execute() returned"""
    if r is None:
        return ('none',)
    if isinstance(r, (bytes, str)):
        return ('text', r)
    if isinstance(r, ModbusIOException) or isinstance(r, Exception):
        return ('error', type(r).__name__)
    try:
        return ('response', type(r).__name__, pdu.encode(dict(bind.to_msg(r))), getattr(r, 'transaction_id', None), getattr(r, 'unit_id', None))
    except Exception as e:   # noqa
        return ('undescribable', type(r).__name__, repr(e)[:60])
