"""Scripted transports and a virtual clock for the real synchronous clients.

The real ModbusTcpClient / ModbusSerialClient / ModbusUdpClient objects run
unmodified; their socket / serial port is a fake attached to a `Line`, the
modules' `time` and `select` are replaced by a virtual clock (every time() call
advances it by a small epsilon, sleep(d) by d, so polling loops are finite in
virtual time), and the peer behind the line is a function called once per request
frame written.  Environment decisions are taken through an mc.choice.Env at two
levels only: peer behaviour per request frame, and outcome of each logical read.
"""
import types

from harness import repo  # noqa: F401

import pymodbus.client.sync as csync
import pymodbus.transaction as ptx
import pymodbus.framer.rtu_framer as prtu
from pymodbus.transaction import ModbusRtuFramer, ModbusAsciiFramer, ModbusBinaryFramer, ModbusSocketFramer

EPS = 0.01


class HorizonHit(BaseException):
    """the execution exceeded its horizon of clock / transport operations: reported as a hang"""


class VClock(object):
    LIMIT = 60000

    def __init__(self):
        self.t = 1000.0
        self.calls = 0
        self.sleeps = []                 # (when, how long) of every sleep() call

    def time(self):
        self.calls += 1
        if self.calls > self.LIMIT:
            raise HorizonHit('clock')
        self.t += EPS
        return self.t

    def sleep(self, d):
        self.calls += 1
        if self.calls > self.LIMIT:
            raise HorizonHit('clock')
        self.sleeps.append((self.t, max(0.0, d or 0.0)))
        self.t += max(0.0, d or 0.0)


class Line(object):
    """what lies between the client and its peer"""

    def __init__(self, clock, peer=None):
        self.clock = clock
        self.peer = peer                 # callable(line, frame_bytes) -> None (pushes replies)
        self.rx = []                     # [avail_at, bytearray]
        self.writes = []                 # (time, bytes)
        self.ops = 0
        self.cap = None                  # bytes still allowed in the current logical read
        self.read_fault = None           # 'oserror' | 'eof' for the current logical read
        self.send_fault = False
        self.eof = False                 # peer closed the connection
        self.reconnects = 0
        self.refuse = 0                  # how many of the next connection attempts are refused
        self.refused = 0
        self.read_sizes = []             # sizes the client asked of the transport (logical reads)
        self.conn = 0                    # id of the current connection; a closed one stays dead
        self.dead = set()
        self.log = []

    # peer side -----------------------------------------------------------------
    def push(self, data, delay=0.0):
        if data:
            self.rx.append([self.clock.t + delay, bytearray(data)])

    # transport side ------------------------------------------------------------
    def _avail(self):
        n = sum(len(b) for t, b in self.rx if t <= self.clock.t)
        if self.cap is not None:
            n = min(n, self.cap)
        return n

    def _next_arrival(self):
        ts = [t for t, b in self.rx if t > self.clock.t and len(b)]
        return min(ts) if ts else None

    def _take(self, n):
        out = bytearray()
        n = min(n, self._avail())
        for ent in self.rx:
            if n <= 0:
                break
            if ent[0] <= self.clock.t and len(ent[1]):
                k = min(n, len(ent[1]))
                out += ent[1][:k]
                del ent[1][:k]
                n -= k
        self.rx = [e for e in self.rx if len(e[1])]
        if self.cap is not None:
            self.cap -= len(out)
        return bytes(out)

    def wait(self, timeout):
        """block until data is available or `timeout` virtual seconds have passed; -> bool ready"""
        self.ops += 1
        if self.ops > 200000:
            raise HorizonHit('transport')
        if self.read_fault == 'eof' or self.conn in self.dead:
            return True
        if self._avail():
            return True
        deadline = self.clock.t + max(0.0, timeout or 0.0)
        nxt = self._next_arrival()
        if nxt is not None and nxt <= deadline and (self.cap is None or self.cap > 0):
            self.clock.t = nxt
            return True
        self.clock.t = deadline
        return False

    def written(self, data):
        self.ops += 1
        if self.send_fault:
            self.send_fault = False
            raise OSError('send failed (injected)')
        self.writes.append((self.clock.t, bytes(data)))
        if self.peer is not None:
            self.peer(self, bytes(data))
        return len(data)


class FakeSocket(object):
    def __init__(self, line):
        self.line = line
        self.closed = False
        self.conn = line.conn

    def _dead(self):
        return self.conn in self.line.dead

    def setblocking(self, flag):
        pass

    def settimeout(self, t):
        self.timeout = t

    def send(self, data):
        if self._dead():
            self.line.ops += 1
            raise OSError('broken pipe: the peer closed this connection')
        return self.line.written(data)

    def recv(self, n):
        ln = self.line
        ln.ops += 1
        if n < 0:
            raise ValueError('negative buffersize in recv')        # as a real socket does
        if ln.read_fault == 'oserror':
            ln.read_fault = None
            raise OSError('connection reset by peer (injected)')
        if ln.read_fault == 'eof':
            # the peer closed the connection: whatever it had not sent yet never arrives, and this
            # socket stays dead (a new connection is healthy again)
            ln.dead.add(self.conn)
            ln.rx = []
        if self._dead():
            return b''
        return ln._take(n)

    def close(self):
        self.closed = True

    def fileno(self):
        return 99


class FakeSelect(object):
    def __init__(self, clock):
        self.clock = clock

    def select(self, r, w, x, timeout=None):
        if not r:
            return [], [], []
        ready = r[0].line.wait(timeout)
        return ([r[0]] if ready else []), [], []


class FakeSerial(object):
    def __init__(self, line, timeout=3):
        self.line = line
        self.timeout = timeout
        self.is_open = True
        self.interCharTimeout = None

    @property
    def in_waiting(self):
        return self.line._avail()

    def write(self, data):
        return self.line.written(data)

    def read(self, size=1):
        ln = self.line
        ln.ops += 1
        if ln.read_fault == 'oserror':
            ln.read_fault = None
            raise OSError('serial port failure (injected)')
        if ln.read_fault == 'eof':
            return b''
        out = bytearray()
        deadline = ln.clock.t + (self.timeout or 0.0)
        while len(out) < size:
            out += ln._take(size - len(out))
            if len(out) >= size:
                break
            remaining = deadline - ln.clock.t
            if remaining <= 0 or not ln.wait(remaining) or not ln._avail():
                if ln._avail() == 0 and remaining > 0:
                    ln.clock.t = max(ln.clock.t, deadline)      # a serial read blocks until its timeout
                break
        return bytes(out)

    def close(self):
        self.is_open = False


class FakeUdp(object):
    def __init__(self, line, timeout=3):
        self.line = line
        self.timeout = timeout

    def settimeout(self, t):
        self.timeout = t

    def bind(self, addr):
        pass

    def sendto(self, data, addr):
        return self.line.written(data)

    def recvfrom(self, size):
        import socket
        ln = self.line
        ln.ops += 1
        if ln.read_fault == 'oserror':
            ln.read_fault = None
            raise OSError('udp failure (injected)')
        if not ln.wait(self.timeout if self.timeout is not None else 3):
            raise socket.timeout('timed out')
        # one datagram = one rx entry
        for ent in ln.rx:
            if ent[0] <= ln.clock.t and len(ent[1]):
                data = bytes(ent[1][:size])
                del ent[1][:]
                ln.rx = [e for e in ln.rx if len(e[1])]
                return data, ('peer', 502)
        raise socket.timeout('timed out')


class Patched(object):
    """context manager installing the virtual clock / select / connect seams"""

    def __init__(self, clock, line):
        self.clock, self.line = clock, line

    def __enter__(self):
        self.saved = (csync.time, csync.select, ptx.time, prtu.time, csync.socket.create_connection, csync.serial.Serial)
        self.saved_socket = csync.socket.socket
        vt = types.SimpleNamespace(time=self.clock.time, sleep=self.clock.sleep)
        csync.time = vt
        ptx.time = vt
        prtu.time = vt
        csync.select = FakeSelect(self.clock)
        line = self.line

        def refused():
            if line.refuse > 0:
                line.refuse -= 1
                line.refused += 1
                return True
            return False

        def create_connection(addr, timeout=None, source_address=None):
            if refused():
                raise ConnectionRefusedError('connection refused (injected)')
            line.reconnects += 1
            line.rx = []
            line.conn += 1
            return FakeSocket(line)

        def serial_ctor(**kw):
            if refused():
                raise csync.serial.SerialException('could not open port (injected)')
            line.reconnects += 1
            line.rx = []
            return FakeSerial(line, kw.get('timeout', 3))
        csync.socket.create_connection = create_connection

        def udp_socket(*a, **k):
            line.reconnects += 1
            line.rx = []
            return FakeUdp(line)
        csync.socket.socket = udp_socket
        csync.serial.Serial = serial_ctor
        return self

    def __exit__(self, *a):
        (csync.time, csync.select, ptx.time, prtu.time, csync.socket.create_connection, csync.serial.Serial) = self.saved
        csync.socket.socket = self.saved_socket


KINDS = ('tcp', 'rtu-over-tcp', 'serial-rtu', 'serial-ascii', 'serial-binary', 'udp')      # 'tls' (C14 only): TLS framing on the fake stream socket
FRAMING = {'tcp': 'tcp', 'rtu-over-tcp': 'rtu', 'serial-rtu': 'rtu', 'serial-ascii': 'ascii', 'serial-binary': 'binary', 'udp': 'tcp', 'tls': 'tls'}


_NEIGHBOUR_CLASSES = []


def _neighbour_classes():
    """custom response classes another application component might register on ITS client: same function codes as the
    standard ones, but decoding to nothing"""
    if not _NEIGHBOUR_CLASSES:
        from pymodbus.factory import ClientDecoder
        from harness import framers as _fr
        for cls in _fr.standard_classes(ClientDecoder):
            ns = dict(decode=lambda self, data: setattr(self, 'neighbour_decoded', True),
                      __doc__='neighbour variant')
            _NEIGHBOUR_CLASSES.append(type('Neighbour' + cls.__name__, (cls,), ns))
    return _NEIGHBOUR_CLASSES


def make_client(kind, line, neighbour=True, **kw):
    """real client object with its transport preset to a fake on `line`.  Unless neighbour=False a second client of the
    same kind exists in the process (created first, never connected) with its own transaction counter and its own
    registered response classes: what one client object is configured to do is no business of another."""
    kw.setdefault('timeout', 3)
    if neighbour:
        nb = make_client(kind, Line(line.clock, lambda l, d: None), neighbour=False, **kw)
        for cls in _neighbour_classes():
            nb.register(cls)
        nb.transaction.tid = 0x4242
        c = make_client(kind, line, neighbour=False, **kw)
        for cls in _neighbour_classes():
            nb.register(cls)
        c._neighbour = nb
        return c
    if kind == 'tcp':
        c = csync.ModbusTcpClient('peer', **kw)
        c.socket = FakeSocket(line)
    elif kind == 'rtu-over-tcp':
        c = csync.ModbusTcpClient('peer', framer=ModbusRtuFramer, **kw)
        c.socket = FakeSocket(line)
    elif kind.startswith('serial-'):
        c = csync.ModbusSerialClient(method=kind.split('-')[1], port='fake', baudrate=19200, **kw)
        c.socket = FakeSerial(line, kw['timeout'])
    elif kind == 'tls':
        class _Ctx(object):                                # stands for the SSL context: what connect() wraps a new socket with
            def wrap_socket(self, sock, **k):
                line.reconnects += 1
                line.rx = []
                line.conn += 1
                s2 = FakeSocket(line)
                s2.connect = lambda addr: None
                return s2
        # the record layer is not modelled: PDUs go over the fake stream socket
        c = csync.ModbusTlsClient('peer', sslctx=_Ctx(), **kw)
        c.socket = FakeSocket(line)
    elif kind == 'udp':
        c = csync.ModbusUdpClient('127.0.0.1', **kw)
        c.socket = FakeUdp(line, kw['timeout'])
    else:
        raise ValueError(kind)
    return c


def hook_logical_reads(client, line, decide):
    """wrap client._recv: `decide(size)` is called at the start of every logical read and returns
    'full' | ('short', k) | 'oserror' | 'eof'"""
    orig = client._recv

    def _recv(size):
        line.read_sizes.append(size)
        d = decide(size)
        line.cap = None
        line.read_fault = None
        if d == 'oserror':
            line.read_fault = 'oserror'
        elif d == 'eof':
            line.read_fault = 'eof'
        elif isinstance(d, tuple):
            line.cap = d[1]
        try:
            return orig(size)
        finally:
            line.cap = None
            line.read_fault = None
    client._recv = _recv
