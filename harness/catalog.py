"""Catalogue of small spec-conformant messages (reference dicts), one or more
per message class, used to build frame streams.  Data only."""


def _bits(n, pat=0b1011001110001111):
    return [bool((pat >> (i % 16)) & 1) for i in range(n)]


REQUESTS = [
    dict(kind='req', fc=1, address=0x13, count=0x13),
    dict(kind='req', fc=2, address=0xC4, count=0x16),
    dict(kind='req', fc=3, address=0x6B, count=3),
    dict(kind='req', fc=4, address=8, count=1),
    dict(kind='req', fc=5, address=0xAC, value=0xFF00),
    dict(kind='req', fc=6, address=1, value=3),
    dict(kind='req', fc=7),
    dict(kind='req', fc=8, sub=0, data=[0xA537]),
    dict(kind='req', fc=8, sub=0x0B, data=[0]),
    dict(kind='req', fc=0x0B),
    dict(kind='req', fc=0x0C),
    dict(kind='req', fc=0x0F, address=0x13, count=10, byte_count=2, bits=_bits(10)),
    dict(kind='req', fc=0x10, address=1, count=2, byte_count=4, registers=[0x000A, 0x0102]),
    dict(kind='req', fc=0x11),
    dict(kind='req', fc=0x14, groups=[(4, 1, 2), (3, 9, 2)]),
    dict(kind='req', fc=0x15, groups=[(4, 7, bytes.fromhex('06AF04BE100D'))]),
    dict(kind='req', fc=0x16, address=4, and_mask=0xF2, or_mask=0x25),
    dict(kind='req', fc=0x17, read_address=3, read_count=6, write_address=14, write_count=3,
         write_byte_count=6, write_registers=[0xFF, 0xFF, 0xFF]),
    dict(kind='req', fc=0x18, address=0x04DE),
    dict(kind='req', fc=0x2B, read_code=1, object_id=0),
]

RESPONSES = [
    dict(kind='rsp', fc=1, bits=_bits(24)),
    dict(kind='rsp', fc=2, bits=_bits(8, 0xAC)),
    dict(kind='rsp', fc=3, registers=[0x022B, 0, 0x64]),
    dict(kind='rsp', fc=4, registers=[10]),
    dict(kind='rsp', fc=5, address=0xAC, value=0xFF00),
    dict(kind='rsp', fc=6, address=1, value=3),
    dict(kind='rsp', fc=7, status=0x6D),
    dict(kind='rsp', fc=8, sub=0, data=[0xA537]),
    dict(kind='rsp', fc=8, sub=0x0B, data=[7]),
    dict(kind='rsp', fc=0x0B, status=0xFFFF, count=0x0108),
    dict(kind='rsp', fc=0x0C, status=0, event_count=0x0108, message_count=0x0121, events=[0x20, 0]),
    dict(kind='rsp', fc=0x0F, address=0x13, count=10),
    dict(kind='rsp', fc=0x10, address=1, count=2),
    dict(kind='rsp', fc=0x11, identifier=b'Pymodbus', run=True),
    dict(kind='rsp', fc=0x14, groups=[bytes.fromhex('0DFE0020'), bytes.fromhex('33CD0040')]),
    dict(kind='rsp', fc=0x15, groups=[(4, 7, bytes.fromhex('06AF04BE100D'))]),
    dict(kind='rsp', fc=0x16, address=4, and_mask=0xF2, or_mask=0x25),
    dict(kind='rsp', fc=0x17, registers=[0xFE, 0x0ACD, 1]),
    dict(kind='rsp', fc=0x18, values=[0x01B8, 0x1284]),
    dict(kind='rsp', fc=0x2B, read_code=1, conformity=0x83, more=0, next_id=0,
         objects=[(0, b'Co'), (1, b'PC'), (2, b'V2.11')]),
    dict(kind='exc', fc=1, code=2),
    dict(kind='exc', fc=0x10, code=3),
]


def name(m):
    s = '%s%02X' % (m['kind'], m['fc'])
    if m['fc'] == 8 and m['kind'] != 'exc':
        s += '.%02X' % m['sub']
    return s


BY_NAME = {}
for _m in REQUESTS + RESPONSES:
    BY_NAME.setdefault(name(_m), _m)

# the same message classes with other payload lengths (what is learnt about one frame of a function code must not be
# applied to the next one)
VARIANTS = {
    'req10#1': dict(kind='req', fc=0x10, address=9, count=1, byte_count=2, registers=[0x0BAD]),
    'req10#3': dict(kind='req', fc=0x10, address=3, count=3, byte_count=6, registers=[0x0301, 0x0302, 0x0303]),
    'req0F#9': dict(kind='req', fc=0x0F, address=2, count=9, byte_count=2, bits=[True, False, True, True, False, False, True, False, True]),
    'req17#1': dict(kind='req', fc=0x17, read_address=1, read_count=1, write_address=2, write_count=1, write_byte_count=2, write_registers=[0x1701]),
    'rsp03#1': dict(kind='rsp', fc=3, registers=[0x0311]),
    'rsp03#3': dict(kind='rsp', fc=3, registers=[0x0331, 0x0332, 0x0333]),
    'rsp01#2': dict(kind='rsp', fc=1, byte_count=2, bits=[True, False, True, True, False, False, True, False, True, False, False, False, False, False, False, False]),
}
BY_NAME.update(VARIANTS)

# the 7-class mix of DESIGN C06: fixed-size, byte-count-sized, exception,
# diagnostic, MEI, file record, FIFO
MIX_REQ = ['req03', 'req10', 'req05', 'req08.00', 'req2B', 'req15', 'req18']
MIX_RSP = ['rsp06', 'rsp03', 'exc01', 'rsp08.00', 'rsp2B', 'rsp15', 'rsp18']

# payloads made of framing delimiter bytes ('{' '}' ':' CR LF) in every position class
DELIM_REQUESTS = [
    dict(kind='req', fc=6, address=0x7B7D, value=0x3A0D),
    dict(kind='req', fc=6, address=0x0D0A, value=0x7D7B),
    dict(kind='req', fc=3, address=0x7B00, count=0x007D),
    dict(kind='req', fc=0x10, address=0x7D7D, count=3, byte_count=6, registers=[0x7B7B, 0x0D0A, 0x3A3A]),
    dict(kind='req', fc=0x0F, address=0x3A, count=16, byte_count=2,
         bits=[bool((0x7D7B >> i) & 1) for i in range(16)]),
    dict(kind='req', fc=0x15, groups=[(0x7B7D, 0x3A0D, bytes([0x7B, 0x7D, 0x0D, 0x0A, 0x3A, 0x7B]))]),
    dict(kind='req', fc=8, sub=0, data=[0x7B7D, 0x0D0A]),
]
DELIM_RESPONSES = [
    dict(kind='rsp', fc=6, address=0x7B7D, value=0x3A0D),
    dict(kind='rsp', fc=3, registers=[0x7B7B, 0x7D7D, 0x0D0A, 0x3A3A]),
    dict(kind='rsp', fc=1, bits=[bool((0x7D7B >> i) & 1) for i in range(16)]),
    dict(kind='rsp', fc=0x11, identifier=b'{}:\r\n', run=True),
    dict(kind='rsp', fc=0x2B, read_code=1, conformity=0x83, more=0, next_id=0, objects=[(0, b'{:}\r\n')]),
    dict(kind='exc', fc=3, code=0x7B),
    dict(kind='exc', fc=0x7B & 0x7F, code=0x7D),
]

# maximum-size messages (PDU at or near 253 bytes)
LARGE_REQUESTS = [
    dict(kind='req', fc=0x0F, address=0, count=1968, byte_count=246, bits=_bits(1968)),
    dict(kind='req', fc=0x10, address=0, count=123, byte_count=246, registers=[(i * 257) & 0xFFFF for i in range(123)]),
    dict(kind='req', fc=0x17, read_address=0, read_count=125, write_address=0, write_count=121, write_byte_count=242,
         write_registers=[(i * 263) & 0xFFFF for i in range(121)]),
    dict(kind='req', fc=0x14, groups=[(i, i + 1, 2) for i in range(35)]),
    dict(kind='req', fc=0x15, groups=[(4, 7, bytes((i * 7) & 0xFF for i in range(238)))]),
]
LARGE_RESPONSES = [
    dict(kind='rsp', fc=1, bits=_bits(2000)),
    dict(kind='rsp', fc=3, registers=[(i * 257) & 0xFFFF for i in range(125)]),
    dict(kind='rsp', fc=0x17, registers=[(i * 259) & 0xFFFF for i in range(125)]),
    dict(kind='rsp', fc=0x0C, status=0, event_count=1, message_count=2, events=[(i * 5) & 0xFF for i in range(64)]),
    dict(kind='rsp', fc=0x15, groups=[(4, 7, bytes((i * 7) & 0xFF for i in range(238)))]),
    dict(kind='rsp', fc=0x2B, read_code=3, conformity=0x83, more=0xFF, next_id=0x85,
         objects=[(0, b'v' * 60), (1, b'p' * 60), (2, b'r' * 60), (0x80, b'x' * 50)]),
    dict(kind='rsp', fc=0x11, identifier=bytes(range(249)), run=True),
    # objects longer than 127 bytes (a length byte with its top bit set), alone and behind a short one
    dict(kind='rsp', fc=0x2B, read_code=4, conformity=0x83, more=0, next_id=0, objects=[(0x80, b'L' * 200)]),
    dict(kind='rsp', fc=0x2B, read_code=3, conformity=0x83, more=0xFF, next_id=0x82, objects=[(0x80, b'a' * 5), (0x81, b'M' * 128)]),
]
