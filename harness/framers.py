"""Real framers: construction, snapshot / restore, delivery capture."""
from harness import repo  # noqa: F401
from harness import bind

from pymodbus.factory import ServerDecoder, ClientDecoder
from pymodbus.framer.socket_framer import ModbusSocketFramer
from pymodbus.framer.rtu_framer import ModbusRtuFramer
from pymodbus.framer.ascii_framer import ModbusAsciiFramer
from pymodbus.framer.binary_framer import ModbusBinaryFramer
from pymodbus.framer.tls_framer import ModbusTlsFramer

FRAMERS = {'tcp': ModbusSocketFramer, 'rtu': ModbusRtuFramer, 'ascii': ModbusAsciiFramer,
           'binary': ModbusBinaryFramer, 'tls': ModbusTlsFramer}
_DEC = {}


_NEIGHBOURS = []


def standard_classes(decoder_cls):
    """the message classes a decoder knows: the class-level tables when they are there, else what the public
    lookupPduClass() reveals (function level only)"""
    name = decoder_cls.__name__
    out = []
    for table in ('_%s__function_table' % name, '_%s__sub_function_table' % name):
        out.extend(getattr(decoder_cls, table, ()))
    if not out:
        d, seen = decoder_cls(), set()
        for fc in range(1, 128):
            try:
                c = d.lookupPduClass(fc)
            except Exception:   # noqa
                c = None
            if isinstance(c, type) and getattr(c, 'function_code', None) == fc and c not in seen:
                seen.add(c)
                out.append(c)
    return out


def buffer_bytes(fr):
    """the unconsumed bytes a framer holds, as one byte string (canonical forms that need the receive state only)"""
    b = getattr(fr, '_buffer', None)
    if isinstance(b, (bytes, bytearray)):
        return bytes(b)
    return b''.join(bytes(v) for k, v in sorted(vars(fr).items()) if isinstance(v, (bytes, bytearray)))


def buffered(fr):
    """number of unconsumed bytes a framer holds (its receive buffer)"""
    b = getattr(fr, '_buffer', None)
    if isinstance(b, (bytes, bytearray)):
        return len(b)
    return sum(len(v) for v in vars(fr).values() if isinstance(v, (bytes, bytearray)))


def _neighbour(side):
    """another decoder of the same class on which an application registered its own variants of every standard
    message class (function-level and sub-function-level): what one decoder object is told must not show in another"""
    cls = ServerDecoder if side == 'req' else ClientDecoder
    d = cls()
    for c in standard_classes(cls):
        ns = dict(decode=lambda self, data: setattr(self, 'neighbour_decoded', True), __doc__='neighbour variant')
        d.register(type('Neighbour' + c.__name__, (c,), ns))
    _NEIGHBOURS.append(d)


def decoder(side):
    """side 'req' -> server decoder (decodes requests), 'rsp' -> client decoder.
    Decoders are stateless lookup tables; one instance per side is shared.  A neighbour decoder with its own
    registered classes is created before and after it."""
    if side not in _DEC:
        _neighbour(side)
        _DEC[side] = ServerDecoder() if side == 'req' else ClientDecoder()
        _neighbour(side)
    return _DEC[side]


def make(framing, side):
    return FRAMERS[framing](decoder(side), client=None)


class UnknownState(Exception):
    pass


def _freeze(v):
    if isinstance(v, (bytes, str, int, float, bool, type(None))):
        return v
    if isinstance(v, bytearray):
        return ('ba', bytes(v))
    if isinstance(v, dict):
        return ('d',) + tuple(sorted((k, _freeze(x)) for k, x in v.items()))
    if isinstance(v, list):
        return ('l',) + tuple(_freeze(x) for x in v)
    if isinstance(v, tuple):
        return ('t',) + tuple(_freeze(x) for x in v)
    if isinstance(v, (set, frozenset)):
        return ('s', isinstance(v, frozenset)) + tuple(sorted((_freeze(x) for x in v), key=repr))
    # immutable helper objects (a compiled struct layout or pattern, a function, a class): identified by what they
    # are, handed back by reference
    import struct, re, types
    if isinstance(v, struct.Struct):
        tok = ('o', 'Struct', v.format)
    elif isinstance(v, re.Pattern):
        tok = ('o', 'Pattern', v.pattern)
    elif isinstance(v, (types.FunctionType, types.BuiltinFunctionType, types.MethodType, type, types.ModuleType)):
        tok = ('o', type(v).__name__, getattr(v, '__qualname__', getattr(v, '__name__', '?')))
    elif (hasattr(v, '__dict__') or hasattr(type(v), '__slots__')) and type(v).__module__ not in ('builtins', 'socket', 'threading', '_thread'):
        # a small helper object the framer keeps part of its state in: its class + everything it holds
        ctok = ('o', 'class', type(v).__module__ + '.' + type(v).__qualname__)
        _OPAQUE[ctok] = type(v)
        slots = tuple((k, _freeze(getattr(v, k))) for c in type(v).__mro__ for k in getattr(c, '__slots__', ()) if k not in ('__dict__', '__weakref__') and hasattr(v, k))
        return ('obj', ctok, tuple(sorted((k, _freeze(x)) for k, x in getattr(v, '__dict__', {}).items())), slots)
    else:
        raise UnknownState('cannot canonicalise %r' % (v,))
    _OPAQUE[tok] = v
    return tok


_OPAQUE = {}


def _thaw(v):
    if isinstance(v, tuple):
        tag = v[0]
        if tag == 'ba':
            return bytearray(v[1])
        if tag == 'd':
            return dict((k, _thaw(x)) for k, x in v[1:])
        if tag == 'l':
            return [_thaw(x) for x in v[1:]]
        if tag == 't':
            return tuple(_thaw(x) for x in v[1:])
        if tag == 's':
            return (frozenset if v[1] else set)(_thaw(x) for x in v[2:])
        if tag == 'o':
            return _OPAQUE[v]
        if tag == 'obj':
            cls = _OPAQUE[v[1]]
            o = cls.__new__(cls)
            for k, x in v[2]:
                setattr(o, k, _thaw(x)) if not hasattr(o, '__dict__') else o.__dict__.__setitem__(k, _thaw(x))
            for k, x in v[3]:
                setattr(o, k, _thaw(x))
            return o
    return v


def snapshot(fr):
    """Canonical form = *every* attribute the framer holds except the (stateless)
    decoder and the client back-reference.  An attribute of a type the canoniser
    does not know raises UnknownState, so hidden state cannot be merged away."""
    return tuple(sorted((k, _freeze(v)) for k, v in vars(fr).items()
                        if k not in ('decoder', 'client')))


def restore(framing, side, snap):
    fr = make(framing, side)
    for k in list(vars(fr)):
        if k not in ('decoder', 'client'):
            delattr(fr, k)
    for k, v in snap:
        setattr(fr, k, _thaw(v))
    return fr


def describe(o):
    """Comparable description of a delivered message."""
    try:
        m = bind.to_msg(o)
        body = tuple(sorted((k, _freeze(v) if not isinstance(v, (list, tuple)) else repr(v))
                            for k, v in m.items()))
    except Exception as e:   # noqa
        body = ('undescribable', type(e).__name__)
    return (type(o).__name__, body, getattr(o, 'unit_id', None), getattr(o, 'transaction_id', None),
            getattr(o, 'protocol_id', None))


def feed(fr, chunk, units, single):
    """One receive call.  Returns (deliveries, exception-or-None)."""
    out = []
    try:
        fr.processIncomingPacket(bytes(chunk), lambda m: out.append(describe(m)), units, single=single)
        return out, None
    except Exception as e:   # noqa
        return out, e
