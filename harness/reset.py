"""Reset of pymodbus' process-wide singletons to a known image before every
execution (they would otherwise leak between explored executions)."""
from harness import repo  # noqa: F401
from pymodbus.device import ModbusControlBlock, ModbusDeviceIdentification, ModbusPlusStatistics


def control_block():
    d = getattr(ModbusDeviceIdentification, '_ModbusDeviceIdentification__data', None)
    if isinstance(d, dict):
        d.clear()
        d.update(dict((i, '') for i in range(9)))
    else:
        # the identity keeps its objects somewhere else: blank every object through the public mapping interface
        ident = ModbusControlBlock().Identity
        for i in list(range(9)) + list(range(0x80, 0x100)):
            ident[i] = ''
        d = None
    cb = ModbusControlBlock()
    cb.reset()
    cb.ListenOnly = False
    cb.Mode = 'ASCII'
    cb.Delimiter = '\r'
    try:
        cb.Plus.reset()
    except Exception:   # noqa
        pass
    # the reset must have taken
    assert cb.ListenOnly is False and (d is None or (list(d.keys()) == list(range(9)) and not any(d.values())))
    assert cb.Counter.summary() == 0 and cb.getEvents() == b''
    return cb


def set_identity(items):
    """items: list of (id, str) in the order they are to be stored."""
    ident = ModbusControlBlock().Identity
    for k, v in items:
        ident[k] = v
    return ident
