"""Enumerators of spec-conformant reference messages per message class.
Finite alphabets are stated here once (DESIGN section 4) and shared by the
codec checks.  Data only, no pymodbus imports."""
import itertools

B16 = [0, 1, 2, 7, 8, 9, 0x78, 0x79, 0x7A, 0x7B, 0x7C, 0x7D, 0x7E, 0xFF, 0x100, 0x7AF, 0x7B0,
       0x7B1, 0x7CF, 0x7D0, 0x7D1, 0x7FFF, 0x8000, 0xFF00, 0xFFFE, 0xFFFF]
B16S = [0, 1, 0x7B, 0x7D, 0xFF, 0x100, 0x7D0, 0x7FFF, 0x8000, 0xFF00, 0xFFFE, 0xFFFF]
B8 = [0, 1, 2, 3, 6, 7, 0x0D, 0x0A, 0x3A, 0x7B, 0x7D, 0x7F, 0x80, 0x81, 0xFE, 0xFF]
ANCHORS = [0, 0x1234, 0xFFFF]


def bit_patterns(n):
    """contents for a bit list of length n"""
    yield [False] * n
    if n:
        yield [True] * n
        yield [bool(i & 1) for i in range(n)]
        yield [i == n - 1 for i in range(n)]
        yield [bool((0xB38F >> (i % 16)) & 1) for i in range(n)]


def all_bits(n):
    for t in itertools.product((False, True), repeat=n):
        yield list(t)


def regs(n, off=0):
    return [B16[(i + off) % len(B16)] for i in range(n)]


def _sweep(fields, tier):
    """cross product of boundary alphabets; thorough adds the per-field
    exhaustive sweep 0..65535 with the other fields at three anchors."""
    alpha = B16 if len(fields) <= 2 else B16S
    if tier == 'thorough' and len(fields) == 3:
        alpha = B16
    for vals in itertools.product(alpha, repeat=len(fields)):
        yield dict(zip(fields, vals))
    if tier == 'thorough':
        for i, f in enumerate(fields):
            for a in ANCHORS:
                base = dict((g, a) for g in fields)
                for v in range(0x10000):
                    d = dict(base)
                    d[f] = v
                    yield d


def _lens(tier, lo, hi, edge=9, low=40):
    if tier == 'thorough':
        return list(range(lo, hi + 1))
    return sorted(set(list(range(lo, min(hi, lo + low) + 1)) + list(range(max(lo, hi - edge), hi + 1))))


def file_read_groups(tier):
    yield []
    for n in (1, 2, 3, 34, 35):
        yield [((i * 7 + 1) & 0xFFFF, B16[i % len(B16)], (i % 5) + 1) for i in range(n)]
    for f, r, ln in itertools.product([0, 1, 0xFFFF], [0, 0x270F, 0xFFFF], [0, 1, 0x7C]):
        yield [(f, r, ln)]


def file_write_groups(tier):
    def data(n, seed=0):
        return bytes(((i * 37 + seed) & 0xFF) for i in range(2 * n))
    yield []
    lens = [0, 1, 2, 122]
    for n in lens:
        yield [(4, 7, data(n))]
    for a, b in itertools.product([0, 1, 2, 57], repeat=2):
        if 7 + 2 * a + 7 + 2 * b <= 245:
            yield [(4, 7, data(a)), (0xFFFF, 0x270F, data(b, 5))]
    for a, b, c in itertools.product([0, 1, 37], repeat=3):
        if 21 + 2 * (a + b + c) <= 245:
            yield [(1, 2, data(a)), (3, 4, data(b, 1)), (5, 6, data(c, 2))]
    # delimiter bytes in the record data
    yield [(0x7B7D, 0x3A0D, bytes([0x7B, 0x7D, 0x0D, 0x0A, 0x3A, 0x7B]))]


def file_read_rsp_groups(tier):
    def data(n, seed=0):
        return bytes(((i * 29 + seed) & 0xFF) for i in range(2 * n))
    yield []
    for n in (0, 1, 2, 121):
        yield [data(n)]
    for a, b in itertools.product([0, 1, 2, 50], repeat=2):
        yield [data(a), data(b, 3)]
    for a, b, c in itertools.product([0, 1, 30], repeat=3):
        yield [data(a), data(b, 1), data(c, 2)]


def mei_objects(tier):
    yield []
    yield [(0, b'')]
    yield [(0, b'A')]
    yield [(0, b'V' * 244)]
    yield [(0, b'Company identification'), (1, b'Product code XX'), (2, b'V2.11')]
    yield [(0, b'a'), (1, b''), (2, b'c'), (3, b'http://x'), (0x80, b'\x00\xff{}:\r\n')]
    yield [(i, bytes([i]) * (i % 7)) for i in (0, 1, 2, 3, 4, 5, 6, 0x80, 0x81, 0xFF)]
    # one object id carried several times (pymodbus keeps the values as a list), empty values included
    yield [(0x83, b'abc'), (0x83, b'de')]
    yield [(0x83, b''), (0x83, b'abc')]
    yield [(0x83, b'abc'), (0x83, b'')]
    yield [(0x80, b''), (0x80, b''), (0x80, b'x')]
    yield [(0, b'v'), (0x83, b'a'), (0x83, b'b'), (0x83, b'c')]
    # totals at and around what fits one PDU (246 bytes of objects): 245, 246 fit; 247, 248 do not
    for a in (79, 80, 81, 82):
        yield [(0, b'a' * a), (1, b'b' * 80), (2, b'c' * 80)]


def messages(kind, fc, tier, sub=None):
    """Yield reference messages of one class."""
    K = dict(kind=kind, fc=fc)
    if kind == 'exc':
        for f in range(1, 128):
            for c in range(256):
                yield dict(kind='exc', fc=f, code=c)
        return
    if kind == 'req':
        if fc in (1, 2, 3, 4):
            for d in _sweep(('address', 'count'), tier):
                yield dict(K, **d)
        elif fc == 5:
            for a in (B16 if tier == 'quick' else range(0x10000)):
                for v in (0, 0xFF00):
                    yield dict(K, address=a, value=v)
        elif fc == 6:
            for d in _sweep(('address', 'value'), tier):
                yield dict(K, **d)
        elif fc in (7, 0x0B, 0x0C, 0x11):
            yield dict(K)
        elif fc == 8:
            for m in diag(kind, tier):
                yield m
        elif fc == 0x0F:
            for n in _lens(tier, 1, 1968):
                for i, bits in enumerate(bit_patterns(n)):
                    yield dict(K, address=B16[(n + i) % len(B16)], count=n, byte_count=(n + 7) // 8, bits=bits)
            for n in range(1, 11):
                for bits in all_bits(n):
                    yield dict(K, address=n, count=n, byte_count=(n + 7) // 8, bits=bits)
        elif fc == 0x10:
            for n in range(1, 124):
                for off in (0, 13):
                    yield dict(K, address=B16[(n + off) % len(B16)], count=n, byte_count=2 * n, registers=regs(n, off))
            yield dict(K, address=5, count=0, byte_count=0, registers=[])
        elif fc == 0x14:
            for g in file_read_groups(tier):
                yield dict(K, groups=g)
        elif fc == 0x15:
            for g in file_write_groups(tier):
                yield dict(K, groups=g)
        elif fc == 0x16:
            for d in _sweep(('address', 'and_mask', 'or_mask'), tier):
                yield dict(K, **d)
        elif fc == 0x17:
            for n in range(1, 122):
                yield dict(K, read_address=B16[n % 26], read_count=B16[(n * 7) % 26], write_address=B16[(n * 3) % 26],
                           write_count=n, write_byte_count=2 * n, write_registers=regs(n, n))
            for ra, rc, wa in itertools.product(B16S, repeat=3):
                yield dict(K, read_address=ra, read_count=rc, write_address=wa, write_count=1,
                           write_byte_count=2, write_registers=[0xA5A5])
            # an empty write block (not a request a server executes, but a PDU the codec must carry unchanged)
            yield dict(K, read_address=1, read_count=2, write_address=3, write_count=0, write_byte_count=0, write_registers=[])
        elif fc == 0x18:
            for a in (B16 if tier == 'quick' else range(0x10000)):
                yield dict(K, address=a)
        elif fc == 0x2B:
            for rc in (1, 2, 3, 4):
                for oid in (B8 if tier == 'quick' else range(256)):
                    yield dict(K, read_code=rc, object_id=oid)
        return
    # responses
    if fc in (1, 2):
        for n in _lens(tier, 0, 2000):
            for bits in bit_patterns(n):
                yield dict(K, bits=bits)
        for n in range(1, 11):
            for bits in all_bits(n):
                yield dict(K, bits=bits)
    elif fc in (3, 4, 0x17):
        for n in range(0, 126):
            for off in (0, 7):
                yield dict(K, registers=regs(n, off))
    elif fc == 5:
        for a in (B16 if tier == 'quick' else range(0x10000)):
            for v in (0, 0xFF00):
                yield dict(K, address=a, value=v)
    elif fc == 6:
        for d in _sweep(('address', 'value'), tier):
            yield dict(K, **d)
    elif fc == 7:
        for s in range(256):
            yield dict(K, status=s)
    elif fc == 8:
        for m in diag(kind, tier):
            yield m
    elif fc == 0x0B:
        for s in (0, 0xFFFF):
            for c in (B16 if tier == 'quick' else range(0x10000)):
                yield dict(K, status=s, count=c)
    elif fc == 0x0C:
        for n in range(0, 65):
            for s in (0, 0xFFFF):
                yield dict(K, status=s, event_count=B16[n % 26], message_count=B16[(n * 5) % 26],
                           events=[B8[(i + n) % 16] for i in range(n)])
    elif fc in (0x0F, 0x10):
        for d in _sweep(('address', 'count'), tier):
            yield dict(K, **d)
    elif fc == 0x11:
        for n in list(range(0, 21)) + [249, 250]:
            for run in (True, False):
                yield dict(K, identifier=bytes((i * 11 + n) & 0xFF for i in range(n)), run=run)
        yield dict(K, identifier=b'Pymodbus\xff', run=False)
        yield dict(K, identifier=b'\x00\xff\x00', run=True)
    elif fc == 0x14:
        for g in file_read_rsp_groups(tier):
            yield dict(K, groups=g)
    elif fc == 0x15:
        for g in file_write_groups(tier):
            yield dict(K, groups=g)
    elif fc == 0x16:
        for d in _sweep(('address', 'and_mask', 'or_mask'), tier):
            yield dict(K, **d)
    elif fc == 0x18:
        for n in range(0, 32):
            for off in (0, 5):
                yield dict(K, values=regs(n, off))
    elif fc == 0x2B:
        for objs in mei_objects(tier):
            for rc in (1, 2, 3, 4):
                for more, nxt in ((0, 0), (0xFF, 3)):
                    yield dict(K, read_code=rc, conformity=0x83 if rc != 1 else 0x01, more=more, next_id=nxt, objects=objs)


DIAG_SUBS = list(range(0, 5)) + list(range(0x0A, 0x16))
DIAG_UNASSIGNED = [5, 9, 0x16, 0x100, 0xFFFF]


def diag(kind, tier):
    K = dict(kind=kind, fc=8)
    for sub in DIAG_SUBS + DIAG_UNASSIGNED:
        if sub == 4 and kind == 'rsp':
            continue                          # the spec defines no response to Force Listen Only Mode
        if sub == 1:
            vals = [0x0000, 0xFF00]          # restart: only these data values are legal
        elif sub == 4:
            vals = [0]                        # force listen only: data 0000
        elif sub == 0x15 and kind == 'req':
            vals = [3, 4]                     # Modbus Plus: get / clear statistics
        else:
            vals = B16 if tier == 'quick' else range(0x10000)
        for v in vals:
            yield dict(K, sub=sub, data=[v])
    for n in (0, 2, 3, 4, 125):              # Return Query Data loops back N words
        yield dict(K, sub=0, data=regs(n, 3))


CLASSES = ([('req', fc) for fc in (1, 2, 3, 4, 5, 6, 7, 8, 0x0B, 0x0C, 0x0F, 0x10, 0x11, 0x14, 0x15, 0x16, 0x17, 0x18, 0x2B)] +
           [('rsp', fc) for fc in (1, 2, 3, 4, 5, 6, 7, 8, 0x0B, 0x0C, 0x0F, 0x10, 0x11, 0x14, 0x15, 0x16, 0x17, 0x18, 0x2B)] +
           [('exc', 0)])
