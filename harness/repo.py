"""Puts the repository under test first on sys.path and checks that pymodbus
really is imported from it (VERIF_REPO may point at a scratch copy)."""
import logging
import os
import sys
import warnings

ROOT = os.path.realpath(os.environ.get('VERIF_REPO', '/repo'))
if ROOT in sys.path:
    sys.path.remove(ROOT)
sys.path.insert(0, ROOT)
warnings.simplefilter('ignore')
logging.disable(logging.CRITICAL)


class DebugLogging(object):
    """the library's loggers at DEBUG level (what its example programs switch on), records going nowhere: the code
    behind `if _logger.isEnabledFor(logging.DEBUG)` and the formatting of every log call runs"""

    def __enter__(self):
        lg = logging.getLogger('pymodbus')
        self.saved = (lg.level, lg.propagate, list(lg.handlers), logging.root.manager.disable)
        lg.setLevel(logging.DEBUG)
        lg.propagate = False
        lg.handlers[:] = [_Sink()]
        logging.disable(logging.NOTSET)
        return self

    def __exit__(self, *a):
        lg = logging.getLogger('pymodbus')
        lg.setLevel(self.saved[0])
        lg.propagate = self.saved[1]
        lg.handlers[:] = self.saved[2]
        logging.disable(self.saved[3])


class _Sink(logging.Handler):
    """formats every record (as a real handler would) and throws the text away; a record that cannot be formatted is
    reported by the logging module on stderr, not raised -- counted here instead"""
    failures = []

    def emit(self, record):
        try:
            record.getMessage()
        except Exception as e:   # noqa
            _Sink.failures.append((record.pathname, record.lineno, repr(e)))


if os.environ.get('VERIF_LOG_DEBUG') == '1':
    DebugLogging().__enter__()

import pymodbus  # noqa: E402

_where = os.path.realpath(pymodbus.__file__)
if not _where.startswith(ROOT + os.sep):
    raise SystemExit('harness error: pymodbus imported from %s, not from %s' % (_where, ROOT))
