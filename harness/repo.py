"""Puts the repository under test first on sys.path and checks that pymodbus
really is imported from it (VERIF_REPO may point at a scratch copy)."""
import logging
import os
import sys
import warnings

ROOT = os.path.realpath(os.environ.get('VERIF_REPO', '/repo'))
if ROOT in sys.path:
    sys.path.remove(ROOT)
sys.path.insert(0, ROOT)
warnings.simplefilter('ignore')
logging.disable(logging.CRITICAL)

import pymodbus  # noqa: E402

_where = os.path.realpath(pymodbus.__file__)
if not _where.startswith(ROOT + os.sep):
    raise SystemExit('harness error: pymodbus imported from %s, not from %s' % (_where, ROOT))
