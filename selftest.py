"""setup_cmd: reference-model spec vectors, explorer unit tests, schema check."""
import json
import os
import subprocess
import sys

HERE = os.path.dirname(os.path.abspath(__file__))


def toy_states():
    from mc import states
    # off-by-one toy: counter wraps at 5 instead of 4 -> invariant x < 5 must fail only via x==5
    bad = []
    st, path = states.bfs_snapshot([0], lambda s: (1, 2), lambda s, e: ((s + e) % 6, None),
                                   on_state=lambda s, p: bad.append(s) if s >= 5 else None)
    assert st.states == 6 and st.closed and bad == [5], (st.as_dict(), bad)
    return 1


def toy_choice():
    from mc import choice
    seen = []

    def run(env):
        a = env.choose(3, 'a')
        b = env.choose(2, 'b')
        return (a, b)
    st = choice.explore(run, 1, on_exec=lambda env, obs: seen.append(obs))
    assert sorted(seen) == [(0, 0), (0, 1), (1, 0), (2, 0)], seen
    seen[:] = []
    choice.explore(run, 2, on_exec=lambda env, obs: seen.append(obs))
    assert len(set(seen)) == 6
    return 2


def toy_sched():
    from mc import sched

    def make(locked):
        def mk(s):
            box = {'x': 0, 'lock': sched.SLock(s)}

            def body():
                if locked:
                    box['lock'].acquire()
                s.point('read')
                v = box['x']
                s.point('write')
                box['x'] = v + 1
                if locked:
                    box['lock'].release()
            s.spawn(body)
            s.spawn(body)
            return box
        return mk
    outs = set()
    st = sched.explore(make(False), 2, on_exec=lambda s, h: outs.add(h['x']))
    assert outs == {1, 2}, outs          # the racy counter loses an update on some schedule
    outs.clear()
    st2 = sched.explore(make(True), 2, on_exec=lambda s, h: outs.add((h['x'], s.outcome)))
    assert outs == {(2, 'ok')}, outs     # with the lock every schedule is right and none deadlocks
    assert st['executions'] > 3 and st2['executions'] > 1
    # replay determinism: same prefix twice -> same trace
    s1 = sched.Sched([0, 1, 0, 1]); make(False)(s1); s1.run()
    s2 = sched.Sched([0, 1, 0, 1]); make(False)(s2); s2.run()
    assert s1.trace == s2.trace
    return 3


def main():
    sys.path.insert(0, HERE)
    from ref import crc, adu, pdu
    n = crc.selftest() + adu.selftest() + pdu.selftest()
    for name in ('datamodel', 'mei', 'payload', 'routing', 'clientpolicy'):
        try:
            mod = __import__('ref.' + name, fromlist=['selftest'])
        except ImportError:
            continue
        n += mod.selftest()
    n += toy_states() + toy_choice() + toy_sched()
    # manifest / known findings are valid JSON and the manifest validates
    man = json.load(open(os.path.join(HERE, 'MANIFEST.json')))
    json.load(open(os.path.join(HERE, 'known_findings.json')))
    chk = ("import json,jsonschema,sys;"
           "jsonschema.validate(json.load(open(%r)), json.load(open('/root/.vp/MANIFEST.schema.json')))"
           % os.path.join(HERE, 'MANIFEST.json'))
    if os.path.exists('/root/.vp/MANIFEST.schema.json'):
        r = subprocess.run(['python3-vt', '-c', chk], stdout=subprocess.PIPE, stderr=subprocess.STDOUT, text=True)
        if r.returncode != 0:
            print(r.stdout)
            return 2
    # the repository under test imports
    from harness import repo  # noqa
    print('selftest ok: %d reference/explorer assertions, %d checks in manifest' % (n, len(man['checks'])))
    return 0
